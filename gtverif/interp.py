"""Symbolic interpreter for jaxprs (the IR `jax.make_jaxpr` produces from the real library code).

Arrays with symbolic content are numpy object arrays of symdom.S; everything else is executed by
JAX itself.  Data-movement primitives are not re-implemented: the primitive is bound on integer
*index arrays* and the result is used to permute the symbolic entries.
"""
import numpy as np
import jax
import jax.numpy as jnp
from jax.extend import core as jcore
from fractions import Fraction

from .symdom import S, Ctx, Unsupported, Ext

jax.config.update("jax_enable_x64", True)


def is_sym(a):
    return isinstance(a, np.ndarray) and a.dtype == object


STRUCTURAL = {
    "stack", "broadcast_in_dim", "reshape", "transpose", "squeeze", "concatenate", "slice", "gather", "tile",
    "expand_dims", "rev", "dynamic_slice", "scatter", "dynamic_update_slice", "pad", "split", "copy",
    "copy_p", "select_n", "scatter-add_DISABLED",
}

CALL_PRIMS = ("jit", "pjit", "closed_call", "core_call", "remat", "checkpoint", "custom_lin")


class Interp:
    def __init__(self, ctx, hooks=None):
        self.ctx = ctx
        self.stats = {"eqns": 0, "prims": {}, "stubs": {}, "functions": set()}
        self.hooks = hooks or {}
        self.chol_tags = {}
        self._seen_tb = set()
        self.fresh_normals = None   # callable(shape) -> object array (C19 stub)
        self.phi = None             # Phi-atom provider (C20), optional

    # ------------------------------------------------------------------ helpers
    def lift_arr(self, a):
        if is_sym(a):
            return a
        a = np.asarray(a)
        out = np.empty(a.shape, dtype=object)
        flat = out.reshape(-1)
        for i, v in enumerate(a.reshape(-1)):
            flat[i] = self.ctx.lift(v)
        return out

    def stub(self, name):
        self.stats["stubs"][name] = self.stats["stubs"].get(name, 0) + 1

    def structural(self, prim, args, params):
        pools = []
        id_args = []
        off = 1
        for a in args:
            if not is_sym(a) and np.asarray(a).dtype.kind == "f":
                a = self.lift_arr(a)        # concrete float data next to symbolic data (e.g. jnp.empty + .at[].set)
            if is_sym(a):
                ids = np.arange(off, off + a.size, dtype=np.int64).reshape(a.shape)
                pools.append((off, a.reshape(-1)))
                off += a.size
                id_args.append(jnp.asarray(ids))
            else:
                id_args.append(jnp.asarray(a))
        res = prim.bind(*id_args, **params)
        multiple = prim.multiple_results
        outs = list(res) if multiple else [res]
        conv = []
        zero = self.ctx.ZERO
        for r in outs:
            r = np.asarray(r)
            o = np.empty(r.shape, dtype=object)
            of = o.reshape(-1)
            for i, v in enumerate(r.reshape(-1)):
                v = int(v)
                if v == 0:
                    of[i] = zero
                    continue
                if v == np.iinfo(np.int64).min:
                    # jnp.take / gather with mode=fill on an out-of-bounds index: the float code yields NaN
                    raise ProducesNaN(f"{prim.name}: out-of-bounds index is filled with NaN")
                for (st, pool) in pools:
                    if st <= v < st + pool.size:
                        of[i] = pool[v - st]
                        break
                else:
                    raise Unsupported(f"structural id {v} out of pools in {prim.name}")
            conv.append(o)
        return conv if multiple else conv[0]

    # ------------------------------------------------------------------ evaluation
    def eval_closed(self, cj, *args):
        return self.eval_jaxpr(cj.jaxpr, cj.consts, *args)

    def eval_jaxpr(self, jaxpr, consts, *args):
        env = {}

        def read(v):
            if isinstance(v, jcore.Literal):
                return np.asarray(v.val)
            return env[v]

        for v, c in zip(jaxpr.constvars, consts):
            env[v] = c if is_sym(c) else np.asarray(c)
        assert len(jaxpr.invars) == len(args), (len(jaxpr.invars), len(args))
        for v, a in zip(jaxpr.invars, args):
            env[v] = a
        for eqn in jaxpr.eqns:
            try:
                invals = [read(v) for v in eqn.invars]
            except KeyError as ke:
                raise RuntimeError(f"unbound variable {ke} read by equation {eqn.primitive.name} params={list(eqn.params)}")
            outs = self.eval_eqn(eqn, invals)
            if not eqn.primitive.multiple_results:
                outs = [outs]
            if len(outs) != len(eqn.outvars):
                raise RuntimeError(f"{eqn.primitive.name}: produced {len(outs)} outputs, jaxpr expects {len(eqn.outvars)}")
            for v, o in zip(eqn.outvars, outs):
                shp = getattr(v.aval, "shape", None)
                if shp is not None and tuple(np.shape(o)) != tuple(shp):
                    raise RuntimeError(f"{eqn.primitive.name} ({eqn.params.get('name', '')}): output shape {np.shape(o)} != aval {shp}")
                env[v] = o
        return [read(v) for v in jaxpr.outvars]

    def _record_source(self, eqn):
        try:
            tb = eqn.source_info.traceback
            if tb is None:
                return
            key = id(tb)
            if key in self._seen_tb:
                return
            self._seen_tb.add(key)
            for fr in tb.frames:
                fn = fr.file_name
                if "/gaussian_toolbox/" in fn:
                    self.stats["functions"].add(fn.split("/gaussian_toolbox/")[-1] + ":" + fr.function_name)
        except Exception:
            pass

    def eval_eqn(self, eqn, invals):
        prim = eqn.primitive
        name = prim.name
        params = eqn.params
        self.stats["eqns"] += 1
        self.stats["prims"][name] = self.stats["prims"].get(name, 0) + 1
        self._record_source(eqn)
        anysym = any(is_sym(a) for a in invals)
        if name in CALL_PRIMS:
            cj = params["jaxpr"]
            fname = params.get("name", "")
            if fname in self.hooks:
                r = self.hooks[fname](self, eqn, invals)
                if r is not NotImplemented:
                    return r
            nout = len(eqn.outvars)
            if fname == "slogdet" and anysym and nout == 2:
                self.stub("slogdet -> (1, 1/2 ln det^2)")
                return self.slogdet(invals[0])
            if fname == "inv" and anysym and nout == 1 and len(invals) == 1 and np.ndim(invals[0]) >= 2 and np.shape(invals[0])[-1] == np.shape(invals[0])[-2]:
                # jnp.linalg.inv of a general square matrix (LU inside): contract = adj(A)/det(A); det != 0 is a side condition
                self.stub("jnp.linalg.inv(A) -> adj(A)/det(A)")
                A = self.lift_arr(invals[0])
                n = A.shape[-1]
                eye = np.empty((n, n), dtype=object)
                for a_ in range(n):
                    for b_ in range(n):
                        eye[a_, b_] = self.ctx.ONE if a_ == b_ else self.ctx.ZERO
                return [self.spd_solve(A, eye)]
            if fname == "solve" and anysym and nout == 1 and len(invals) == 2 and np.ndim(invals[0]) >= 2 and np.shape(invals[0])[-1] == np.shape(invals[0])[-2]:
                self.stub("jnp.linalg.solve(A, B) -> adj(A)/det(A) B")
                A = self.lift_arr(invals[0]); B = self.lift_arr(invals[1])
                if B.ndim == A.ndim - 1:
                    return [self.spd_solve(A, B[..., None])[..., 0]]
                return [self.spd_solve(A, B)]
            if fname == "_cholesky" and anysym:
                out = self.eval_jaxpr(cj.jaxpr, cj.consts, *invals) if hasattr(cj, "consts") else self.eval_jaxpr(cj, [], *invals)
                self.chol_tags[id(out[0])] = (out[0], invals[0])
                return out
            if fname == "_cho_solve" and anysym and nout == 1 and id(invals[0]) in self.chol_tags:
                A = self.chol_tags[id(invals[0])][1]
                self.stub("cho_solve(cho_factor(A),B) -> adj(A)/det(A) B")
                return [self.spd_solve(self.lift_arr(A), self.lift_arr(invals[1]))]
            if fname == "_normal" and nout == 1 and self.fresh_normals is not None:
                self.stub("jax.random.normal -> fresh symbolic array")
                return [self.fresh_normals(eqn.outvars[0].aval.shape)]
            if hasattr(cj, "consts"):
                return self.eval_jaxpr(cj.jaxpr, cj.consts, *invals)
            return self.eval_jaxpr(cj, [], *invals)
        if name == "custom_jvp_call":
            cj = params["call_jaxpr"]
            return self.eval_jaxpr(cj.jaxpr, cj.consts, *invals)
        if name in ("custom_vjp_call", "custom_vjp_call_jaxpr"):
            cj = params.get("call_jaxpr") or params.get("fun_jaxpr")
            return self.eval_jaxpr(cj.jaxpr, cj.consts, *invals)
        if not anysym and name not in ("while", "scan", "cond"):
            res = prim.bind(*[jnp.asarray(a) for a in invals], **params)
            if prim.multiple_results:
                return [np.asarray(r) for r in res]
            return np.asarray(res)
        if name in STRUCTURAL and name != "select_n":
            return self.structural(prim, invals, params)
        h = getattr(self, "p_" + name.replace("-", "_"), None)
        if h is None:
            raise Unsupported(f"primitive {name}")
        return h(invals, params, eqn)

    # ------------------------------------------------------------------ elementwise
    def _bin(self, invals, f):
        a, b = [self.lift_arr(x) for x in invals]
        a, b = np.broadcast_arrays(a, b)
        out = np.empty(a.shape, dtype=object)
        of = out.reshape(-1)
        for i, (x, y) in enumerate(zip(a.reshape(-1), b.reshape(-1))):
            of[i] = f(x, y)
        return out

    def _un(self, invals, f):
        a = invals[0]
        out = np.empty(a.shape, dtype=object)
        of = out.reshape(-1)
        for i, x in enumerate(a.reshape(-1)):
            of[i] = f(x)
        return out

    def p_add(self, i, p, e): return self._bin(i, lambda a, b: a + b)
    def p_add_any(self, i, p, e): return self._bin(i, lambda a, b: a + b)
    def p_sub(self, i, p, e): return self._bin(i, lambda a, b: a - b)
    def p_mul(self, i, p, e): return self._bin(i, lambda a, b: a * b)
    def p_div(self, i, p, e): return self._bin(i, lambda a, b: a / b)
    def p_neg(self, i, p, e): return self._un(i, lambda a: -a)
    def p_square(self, i, p, e): return self._un(i, lambda a: a * a)
    def p_sqrt(self, i, p, e): return self._un(i, lambda a: a.sqrt())
    def p_rsqrt(self, i, p, e): return self._un(i, lambda a: a.sqrt().inv())
    def p_exp(self, i, p, e): return self._un(i, lambda a: a.exp())
    def p_log(self, i, p, e): return self._un(i, lambda a: a.log())
    def p_log1p(self, i, p, e): return self._un(i, lambda a: (a + 1).log())
    def p_expm1(self, i, p, e): return self._un(i, lambda a: a.exp() - 1)
    def p_integer_pow(self, i, p, e): return self._un(i, lambda a: a ** p["y"])
    def p_stop_gradient(self, i, p, e): return i[0]
    def p_convert_element_type(self, i, p, e):
        nd = np.dtype(p["new_dtype"])
        if nd.kind not in "fc":
            raise Unsupported(f"convert symbolic to {nd}")
        return i[0]
    def p_real(self, i, p, e): return i[0]
    def p_reduce_precision(self, i, p, e): return i[0]

    def p_cosh(self, i, p, e):
        return self._un(i, lambda a: (a.exp() + (-a).exp()) * Fraction(1, 2))

    def p_sinh(self, i, p, e):
        return self._un(i, lambda a: (a.exp() - (-a).exp()) * Fraction(1, 2))

    def p_tanh(self, i, p, e):
        def f(a):
            ep, em = a.exp(), (-a).exp()
            return (ep - em) / (ep + em)
        return self._un(i, f)

    def p_logistic(self, i, p, e):
        return self._un(i, lambda a: 1 / (1 + (-a).exp()))

    def p_pow(self, i, p, e):
        a, b = i
        if is_sym(b):
            bb = np.vectorize(lambda s: s.as_const(), otypes=[object])(b)
            if any(v is None for v in bb.reshape(-1)):
                raise Unsupported("symbolic exponent")
            b = bb
        else:
            b = np.vectorize(lambda v: Fraction(float(v)), otypes=[object])(np.asarray(b))
        a = self.lift_arr(a)
        a, b = np.broadcast_arrays(a, b)
        out = np.empty(a.shape, dtype=object)
        of = out.reshape(-1)
        for k, (x, y) in enumerate(zip(a.reshape(-1), b.reshape(-1))):
            of[k] = x ** y
        return out

    # ---- sign dependent
    def sign_of(self, s):
        """+1/-1/0 if decidable else None"""
        if isinstance(s, Ext):
            return s._sgn()
        if s.is_zero():
            return 0
        c = s.as_const()
        if c is not None:
            return 1 if c > 0 else -1
        if len(s.t) == 1:
            ((ex, sq, ln), c), = s.t.items()
            if not ln:
                return self.ctx.sign_K(c)
        return None

    def p_abs(self, i, p, e):
        def f(a):
            sg = self.sign_of(a)
            if sg is None:
                raise Unsupported("abs of element with unknown sign")
            return a if sg >= 0 else -a
        return self._un(i, f)

    def p_sign(self, i, p, e):
        def f(a):
            sg = self.sign_of(a)
            if sg is None:
                raise Unsupported("sign of element with unknown sign")
            return self.ctx.const(sg)
        return self._un(i, f)

    def _cmp(self, invals, test):
        a, b = [self.lift_arr(x) for x in invals]
        a, b = np.broadcast_arrays(a, b)
        out = np.empty(a.shape, dtype=bool)
        of = out.reshape(-1)
        for k, (x, y) in enumerate(zip(a.reshape(-1), b.reshape(-1))):
            sg = self.sign_of(x - y)
            if sg is None:
                raise Unsupported("comparison of symbolic values with undecided sign")
            of[k] = test(sg)
        return out

    def p_gt(self, i, p, e): return self._cmp(i, lambda s: s > 0)
    def p_ge(self, i, p, e): return self._cmp(i, lambda s: s >= 0)
    def p_lt(self, i, p, e): return self._cmp(i, lambda s: s < 0)
    def p_le(self, i, p, e): return self._cmp(i, lambda s: s <= 0)
    def p_eq(self, i, p, e): return self._cmp(i, lambda s: s == 0)
    def p_ne(self, i, p, e): return self._cmp(i, lambda s: s != 0)

    def p_max(self, i, p, e):
        def f(a, b):
            sg = self.sign_of(a - b)
            if sg is None:
                raise Unsupported("max of symbolic values with undecided order")
            return a if sg >= 0 else b
        return self._bin(i, f)

    def p_min(self, i, p, e):
        def f(a, b):
            sg = self.sign_of(a - b)
            if sg is None:
                raise Unsupported("min of symbolic values with undecided order")
            return a if sg <= 0 else b
        return self._bin(i, f)

    def p_is_finite(self, i, p, e):
        a = i[0]
        out = np.ones(a.shape, dtype=bool)
        of = out.reshape(-1)
        for k, x in enumerate(a.reshape(-1)):
            of[k] = not isinstance(x, Ext)
        return out

    def p_select_n(self, i, p, e):
        pred = i[0]
        if is_sym(pred):
            raise Unsupported("symbolic predicate")
        cases = [self.lift_arr(x) for x in i[1:]]
        cases = [np.broadcast_to(c, np.asarray(pred).shape) if c.shape != np.asarray(pred).shape and np.asarray(pred).shape != () else c for c in cases]
        return self.structural(e.primitive, [pred] + cases, p)

    # ---- reductions / contraction
    def p_reduce_sum(self, i, p, e):
        axes = tuple(p["axes"])
        if not axes:
            return i[0]
        out = np.sum(i[0], axis=axes)
        if not isinstance(out, np.ndarray):
            o = np.empty((), dtype=object); o[()] = out; out = o
        if p.get("out_sharding") is not None:
            pass
        return out

    def _reduce_order(self, i, p, pick_first_if):
        axes = tuple(p["axes"])
        a = i[0]
        if not axes:
            return a
        def red(vals):
            best = vals[0]
            for v in vals[1:]:
                sg = self.sign_of(v - best)
                if sg is None:
                    raise Unsupported("reduce_max/min of symbolic values with undecided order")
                if pick_first_if(sg):
                    best = v
            return best
        moved = np.moveaxis(a, axes, tuple(range(-len(axes), 0)))
        lead = moved.shape[:a.ndim - len(axes)]
        flat = moved.reshape(lead + (-1,))
        out = np.empty(lead, dtype=object)
        for idx in np.ndindex(*lead):
            out[idx] = red(list(flat[idx]))
        return out

    def p_reduce_max(self, i, p, e): return self._reduce_order(i, p, lambda sg: sg > 0)
    def p_reduce_min(self, i, p, e): return self._reduce_order(i, p, lambda sg: sg < 0)

    def p_reduce_prod(self, i, p, e):
        axes = tuple(p["axes"])
        out = np.prod(i[0], axis=axes)
        if not isinstance(out, np.ndarray):
            o = np.empty((), dtype=object); o[()] = out; out = o
        return out

    def p_cumsum(self, i, p, e):
        a = i[0]
        ax = p["axis"]
        if p.get("reverse"):
            a = np.flip(a, ax)
        out = np.cumsum(a, axis=ax)
        if p.get("reverse"):
            out = np.flip(out, ax)
        return out

    def p_dot_general(self, i, p, e):
        a, b = [self.lift_arr(x) for x in i]
        (ca, cb), (ba, bb) = p["dimension_numbers"]
        letters = iter("abcdefghijklmnopqrstuvwxyz")
        la = [None] * a.ndim
        lb = [None] * b.ndim
        for x, y in zip(ba, bb):
            l = next(letters); la[x] = l; lb[y] = l
        batch = [la[x] for x in ba]
        for x, y in zip(ca, cb):
            l = next(letters); la[x] = l; lb[y] = l
        fa = []
        for k in range(a.ndim):
            if la[k] is None:
                la[k] = next(letters); fa.append(la[k])
        fb = []
        for k in range(b.ndim):
            if lb[k] is None:
                lb[k] = next(letters); fb.append(lb[k])
        spec = f"{''.join(la)},{''.join(lb)}->{''.join(batch + fa + fb)}"
        try:
            out = np.einsum(spec, a, b)
        except ValueError as ex:
            raise RuntimeError(f"dot_general einsum {spec} on shapes {a.shape} {b.shape}: {ex}")
        if not isinstance(out, np.ndarray):
            o = np.empty((), dtype=object); o[()] = out; out = o
        return out

    def p_scatter_add(self, i, p, e):
        """operand + (0/1 incidence of updates) . updates ; the incidence comes from JAX itself:
        scatter-add is linear, so its Jacobian w.r.t. the updates at zero is that 0/1 tensor"""
        operand, indices, updates = i
        if is_sym(indices):
            raise Unsupported("scatter-add with symbolic indices")
        operand = self.lift_arr(operand); updates = self.lift_arr(updates)
        prim = e.primitive
        zo = jnp.zeros(operand.shape); zu = jnp.zeros(updates.shape)
        J = np.asarray(jax.jacobian(lambda u: prim.bind(zo, jnp.asarray(indices), u, **p))(zu))
        J = J.reshape(operand.shape + (updates.size,))
        uf = updates.reshape(-1)
        out = np.empty(operand.shape, dtype=object)
        for idx in np.ndindex(*operand.shape):
            t = operand[idx]
            row = J[idx]
            for k in np.nonzero(row)[0]:
                t = t + (uf[k] if row[k] == 1 else uf[k] * self.ctx.lift(float(row[k])))
            out[idx] = t
        return out

    # ---- control flow
    def p_scan(self, i, p, e):
        if "num_consts" in p:
            nc, ncar = p["num_consts"], p["num_carry"]
        else:   # newer JAX: flat-tree descriptions (consts, carry, xs)
            parts = p["ft_in"].unpack() if hasattr(p["ft_in"], "unpack") else p["ft_in"]
            nc, ncar, nxs = (len(t) for t in parts)
            if nc + ncar + nxs != len(i):
                raise Unsupported(f"scan: cannot split {len(i)} operands as consts/carry/xs = {nc}/{ncar}/{nxs}")
        length = p["length"]
        cj = p["jaxpr"]
        consts = i[:nc]
        carry = list(i[nc:nc + ncar])
        xs = i[nc + ncar:]
        ys = None
        rng = range(length - 1, -1, -1) if p.get("reverse") else range(length)
        collected = []
        for t in rng:
            xt = [x[t] if is_sym(x) else np.asarray(x)[t] for x in xs]
            outs = self.eval_jaxpr(cj.jaxpr, cj.consts, *consts, *carry, *xt)
            carry = outs[:ncar]
            collected.append(outs[ncar:])
        if p.get("reverse"):
            collected = collected[::-1]
        nys = len(cj.jaxpr.outvars) - ncar
        ys = []
        for k in range(nys):
            if length == 0:
                ys.append(np.zeros(tuple(e.outvars[ncar + k].aval.shape)))
                continue
            items = [c[k] for c in collected]
            if any(is_sym(x) for x in items):
                items = [self.lift_arr(x) for x in items]
                arr = np.empty((length,) + items[0].shape, dtype=object)
                for t, it in enumerate(items):
                    arr[t] = it[()] if it.shape == () else it
            else:
                arr = np.stack([np.asarray(x) for x in items]) if items else np.zeros((0,))
            ys.append(arr)
        return list(carry) + ys

    def p_while(self, i, p, e):
        cn, bn = p["cond_nconsts"], p["body_nconsts"]
        cj, bj = p["cond_jaxpr"], p["body_jaxpr"]
        cconsts = i[:cn]
        bconsts = i[cn:cn + bn]
        state = list(i[cn + bn:])
        for it in range(10000):
            c = self.eval_jaxpr(cj.jaxpr, cj.consts, *cconsts, *state)[0]
            if is_sym(c):
                raise Unsupported("while with symbolic predicate")
            c = np.asarray(c)
            if not c.any():
                return state
            new = self.eval_jaxpr(bj.jaxpr, bj.consts, *bconsts, *state)
            if c.ndim == 0 or c.all():
                state = list(new)
            else:
                # batched predicate (while under vmap): the carry advances only where the predicate holds; the
                # predicate's shape is a prefix of every carried value's shape (jax's own lowering rule)
                merged = []
                for old, nw in zip(state, new):
                    old_a, nw_a = np.asarray(old, dtype=object) if is_sym(old) or is_sym(nw) else np.asarray(old), np.asarray(nw, dtype=object) if is_sym(old) or is_sym(nw) else np.asarray(nw)
                    assert old_a.shape[:c.ndim] == c.shape, (old_a.shape, c.shape)
                    out = old_a.copy()
                    for idx in np.ndindex(*c.shape):
                        if c[idx]:
                            out[idx] = nw_a[idx]
                    merged.append(out)
                state = merged
        raise Unsupported("while did not terminate in 10000 iterations")

    def p_cond(self, i, p, e):
        idx = i[0]
        if is_sym(idx):
            raise Unsupported("cond with symbolic index")
        br = p["branches"][int(np.asarray(idx))]
        return self.eval_jaxpr(br.jaxpr, br.consts, *i[1:])

    # ---- linear algebra
    def p_cholesky(self, i, p, e):
        A = i[0]
        out = np.empty(A.shape, dtype=object)
        zero = self.ctx.ZERO
        D = A.shape[-1]
        for bidx in np.ndindex(A.shape[:-2]):
            a = A[bidx]
            L = [[zero] * D for _ in range(D)]
            for j in range(D):
                s = a[j, j]
                for k in range(j):
                    s = s - L[j][k] * L[j][k]
                L[j][j] = s.sqrt()
                for r in range(j + 1, D):
                    s = a[r, j]
                    for k in range(j):
                        s = s - L[r][k] * L[j][k]
                    L[r][j] = s / L[j][j]
            for r in range(D):
                for c in range(D):
                    out[bidx + (r, c)] = L[r][c]
        return out

    def p_triangular_solve(self, i, p, e):
        a, b = [self.lift_arr(x) for x in i]
        left, lower, trans, unit = p["left_side"], p["lower"], p["transpose_a"], p["unit_diagonal"]
        trans = str(trans)
        is_t = not (trans.endswith("NO_TRANSPOSE") or trans == "0" or trans == "False")
        if not left:
            # X A = B  <=>  A^T X^T = B^T
            a2 = np.swapaxes(a, -1, -2)
            b2 = np.swapaxes(b, -1, -2)
            res = self._trisolve(a2, b2, not lower, is_t, unit)
            return np.swapaxes(res, -1, -2)
        return self._trisolve(a, b, lower, is_t, unit)

    def _trisolve(self, a, b, lower, trans, unit):
        out = np.empty(b.shape, dtype=object)
        n = a.shape[-1]
        a = np.broadcast_to(a, b.shape[:-2] + a.shape[-2:])
        for bidx in np.ndindex(b.shape[:-2]):
            A = a[bidx]
            eff_lower = lower
            if trans:
                A = A.T
                eff_lower = not lower
            B = b[bidx]
            X = np.empty(B.shape, dtype=object)
            for c in range(B.shape[1]):
                for r in (range(n) if eff_lower else reversed(range(n))):
                    s = B[r, c]
                    ks = range(r) if eff_lower else range(r + 1, n)
                    for k in ks:
                        s = s - A[r, k] * X[k, c]
                    X[r, c] = s if unit else s / A[r, r]
            out[bidx] = X
        return out

    def det(self, M):
        n = M.shape[0]
        if n == 1:
            return M[0, 0]
        if n == 2:
            return M[0, 0] * M[1, 1] - M[0, 1] * M[1, 0]
        tot = self.ctx.ZERO
        for j in range(n):
            if M[0, j].is_zero():
                continue
            minor = np.delete(np.delete(M, 0, axis=0), j, axis=1)
            term = M[0, j] * self.det(minor)
            tot = tot + term if j % 2 == 0 else tot - term
        return tot

    def inverse(self, a):
        """adjugate / determinant inverse of one matrix (object array)"""
        n = a.shape[-1]
        d = self.det(a)
        adj = np.empty((n, n), dtype=object)
        for i in range(n):
            for j in range(n):
                if n == 1:
                    adj[j, i] = self.ctx.ONE
                else:
                    minor = np.delete(np.delete(a, i, axis=0), j, axis=1)
                    c = self.det(minor)
                    adj[j, i] = c if (i + j) % 2 == 0 else -c
        dinv = d.inv()
        inv = np.empty((n, n), dtype=object)
        for i in range(n):
            for j in range(n):
                inv[i, j] = adj[i, j] * dinv
        return inv, d

    def spd_solve(self, A, B):
        batch = np.broadcast_shapes(A.shape[:-2], B.shape[:-2])
        A = np.broadcast_to(A, batch + A.shape[-2:])
        B = np.broadcast_to(B, batch + B.shape[-2:])
        out = np.empty(B.shape, dtype=object)
        for bidx in np.ndindex(*batch):
            inv, _ = self.inverse(A[bidx])
            out[bidx] = inv.dot(B[bidx])
        return out

    def slogdet(self, A):
        A = self.lift_arr(A)
        sign = np.empty(A.shape[:-2], dtype=object)
        ld = np.empty(A.shape[:-2], dtype=object)
        for bidx in np.ndindex(A.shape[:-2]):
            d = self.det(A[bidx])
            sign[bidx] = self.ctx.ONE
            ld[bidx] = (d * d).log() * Fraction(1, 2)
        return [sign, ld]


class ProducesNaN(Exception):
    pass


class TraceRaised(Exception):
    def __init__(self, ex):
        super().__init__(repr(ex))
        self.ex = ex


def run_symbolic(ctx, fn, sym_args, hooks=None, fresh_normals=None):
    """Trace fn (real library code) at the shapes of sym_args and interpret the jaxpr symbolically.
    Returns (outs_tree, interp, closed_jaxpr).  fn may return any pytree of arrays / None."""
    place = [jax.ShapeDtypeStruct(a.shape, jnp.float64) if is_sym(a) else a for a in sym_args]
    def fn_eager_static(*a):
        # index arithmetic on concrete values (arange, setxor1d, ...) is evaluated eagerly, exactly as
        # in a user's eager call; everything that depends on the symbolic inputs is traced
        with jax.ensure_compile_time_eval():
            return fn(*a)
    try:
        cj, out_shape = jax.make_jaxpr(fn_eager_static, return_shape=True)(*place)
    except Exception as ex:   # the real code raised while being traced
        raise TraceRaised(ex) from ex
    it = Interp(ctx, hooks=hooks)
    it.fresh_normals = fresh_normals
    outs = it.eval_jaxpr(cj.jaxpr, cj.consts, *sym_args)
    leaves, treedef = jax.tree_util.tree_flatten(out_shape)
    assert len(leaves) == len(outs)
    outs = [o if is_sym(o) else it.lift_arr(o) for o in outs]
    # jax.tree_util refuses object arrays as leaves in some versions: wrap
    tree = jax.tree_util.tree_unflatten(treedef, [_Box(o) for o in outs])
    tree = jax.tree_util.tree_map(lambda b: b.a, tree, is_leaf=lambda x: isinstance(x, _Box))
    return tree, it, cj


class _Box:
    def __init__(self, a):
        self.a = a
