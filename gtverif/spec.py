"""Independent mathematical specifications (oracles), written once over an abstract scalar field so
the same code runs on symbolic scalars (symdom.S, for the VC) and on float64 (for replay).

Nothing here uses the library under test: inverses are adjugate/determinant, log-densities are
written from the definition, moments come from Stein's recursion.
"""
from fractions import Fraction
import itertools
import math
import numpy as np


class SymOps:
    symbolic = True

    def __init__(self, ctx):
        self.ctx = ctx

    def c(self, q):
        return self.ctx.const(Fraction(q))

    def zero(self):
        return self.ctx.ZERO

    def one(self):
        return self.ctx.ONE

    def ln2pi(self):
        return self.ctx.ln2pi()

    def pi(self):
        return self.ctx.pi()

    def log(self, x):
        return _vec(x, lambda s: s.log())

    def exp(self, x):
        return _vec(x, lambda s: s.exp())

    def sqrt(self, x):
        return _vec(x, lambda s: s.sqrt())

    def lnabs(self, x):
        return _vec(x, lambda s: (s * s).log() * Fraction(1, 2))

    def zeros(self, shape):
        a = np.empty(shape, dtype=object)
        a.reshape(-1)[:] = [self.ctx.ZERO] * a.size
        return a

    def lift(self, arr):
        arr = np.asarray(arr)
        if arr.dtype == object:
            return arr
        out = np.empty(arr.shape, dtype=object)
        of = out.reshape(-1)
        for i, v in enumerate(arr.reshape(-1)):
            of[i] = self.ctx.lift(v)
        return out


class FloatOps:
    symbolic = False

    def c(self, q):
        return float(Fraction(q))

    def zero(self):
        return 0.0

    def one(self):
        return 1.0

    def ln2pi(self):
        return math.log(2 * math.pi)

    def pi(self):
        return math.pi

    def log(self, x):
        return np.log(x)

    def exp(self, x):
        return np.exp(x)

    def sqrt(self, x):
        return np.sqrt(x)

    def lnabs(self, x):
        return np.log(np.abs(x))

    def zeros(self, shape):
        return np.zeros(shape)

    def lift(self, arr):
        return np.asarray(arr, dtype=float)


def _vec(x, f):
    if isinstance(x, np.ndarray):
        out = np.empty(x.shape, dtype=object)
        of = out.reshape(-1)
        for i, v in enumerate(x.reshape(-1)):
            of[i] = f(v)
        return out
    return f(x)


def add_scalar(arr, s):
    """array + scalar for object arrays of S as well as float arrays"""
    if isinstance(arr, np.ndarray) and arr.dtype == object:
        out = np.empty(arr.shape, dtype=object)
        of = out.reshape(-1)
        for i, v in enumerate(arr.reshape(-1)):
            of[i] = v + s
        return out
    if isinstance(arr, np.ndarray):
        return arr + s
    return arr + s


# ---------------------------------------------------------------------- linear algebra (adjugate)
def _const_matrix(M):
    """Fraction matrix if every entry of the symbolic matrix is a rational constant (semi-symbolic blocks), else None"""
    if M.dtype != object or M.ndim != 2 or M.shape[0] < 4:
        return None
    out = []
    for i in range(M.shape[0]):
        row = []
        for j in range(M.shape[1]):
            v = M[i, j]
            c = v.as_const() if hasattr(v, "as_const") else None
            if c is None:
                return None
            row.append(Fraction(c))
        out.append(row)
    return out


def _gauss_jordan(F):
    """exact inverse and determinant of a Fraction matrix (partial pivoting on non-zero)"""
    n = len(F)
    a = [list(r) + [Fraction(int(i == j)) for j in range(n)] for i, r in enumerate(F)]
    d = Fraction(1)
    for c in range(n):
        p = next((r for r in range(c, n) if a[r][c] != 0), None)
        if p is None:
            raise ZeroDivisionError("singular constant matrix")
        if p != c:
            a[c], a[p] = a[p], a[c]; d = -d
        pv = a[c][c]; d *= pv
        a[c] = [x / pv for x in a[c]]
        for r in range(n):
            if r != c and a[r][c] != 0:
                f = a[r][c]
                a[r] = [x - f * y for x, y in zip(a[r], a[c])]
    return [r[n:] for r in a], d


def det(ops, M):
    n = M.shape[0]
    if n == 0:
        return ops.one()
    F = _const_matrix(M)
    if F is not None:
        return ops.c(_gauss_jordan(F)[1])
    if n == 1:
        return M[0, 0]
    if n == 2:
        return M[0, 0] * M[1, 1] - M[0, 1] * M[1, 0]
    tot = ops.zero()
    for j in range(n):
        minor = np.delete(np.delete(M, 0, axis=0), j, axis=1)
        term = M[0, j] * det(ops, minor)
        tot = tot + term if j % 2 == 0 else tot - term
    return tot


def inv(ops, M):
    """(adj(M)/det(M), det(M))"""
    n = M.shape[0]
    F = _const_matrix(M)
    if F is not None:
        Fi, dd = _gauss_jordan(F)
        out = np.empty((n, n), dtype=object)
        for i in range(n):
            for j in range(n):
                out[i, j] = ops.c(Fi[i][j])
        return out, ops.c(dd)
    d = det(ops, M)
    out = np.empty((n, n), dtype=M.dtype)
    for i in range(n):
        for j in range(n):
            if n == 1:
                c = ops.one()
            else:
                minor = np.delete(np.delete(M, i, axis=0), j, axis=1)
                c = det(ops, minor)
                if (i + j) % 2:
                    c = -c
            out[j, i] = c / d
    return out, d


def mv(M, v):
    return np.array([sum(M[i, j] * v[j] for j in range(M.shape[1])) for i in range(M.shape[0])], dtype=M.dtype) if M.shape[1] else np.zeros((M.shape[0],), dtype=M.dtype)


def mm(A, B):
    return np.einsum("ij,jk->ik", A, B)


def quad(x, M, y):
    return sum(x[i] * M[i, j] * y[j] for i in range(len(x)) for j in range(len(y)))


def eye(ops, n):
    a = ops.zeros((n, n))
    for i in range(n):
        a[i, i] = ops.one()
    return a


# ---------------------------------------------------------------------- densities
def logN(ops, x, mu, Sigma):
    """ln N(x; mu, Sigma) from the definition; Sigma^-1 and det by adjugate/cofactors"""
    D = len(x)
    Si, d = inv(ops, Sigma)
    dx = x - mu
    return ops.c(Fraction(-1, 2)) * quad(dx, Si, dx) - ops.c(Fraction(1, 2)) * ops.lnabs(d) - ops.c(Fraction(D, 2)) * ops.ln2pi()


def ln_factor(ops, x, Lambda, nu, ln_beta):
    """ln of beta exp(-1/2 x'Lambda x + nu'x)"""
    return ops.c(Fraction(-1, 2)) * quad(x, Lambda, x) + sum(nu[i] * x[i] for i in range(len(x))) + ln_beta


def ln_mass(ops, Lambda, nu, ln_beta):
    """ln integral of beta exp(-1/2 x'Lambda x + nu'x) dx  (Gaussian mass axiom)"""
    D = Lambda.shape[0]
    Li, d = inv(ops, Lambda)
    return ln_beta + ops.c(Fraction(1, 2)) * quad(nu, Li, nu) + ops.c(Fraction(D, 2)) * ops.ln2pi() - ops.c(Fraction(1, 2)) * ops.lnabs(d)


# ---------------------------------------------------------------------- Gaussian moments (Stein)
class Moments:
    """E[x^alpha] for x ~ N(mu, Sigma) via E[x_i g] = mu_i E[g] + sum_j Sigma_ij E[d_j g]"""

    def __init__(self, ops, mu, Sigma):
        self.ops, self.mu, self.Sigma = ops, mu, Sigma
        self.D = len(mu)
        self.cache = {}

    def mono(self, alpha):
        alpha = tuple(alpha)
        if alpha in self.cache:
            return self.cache[alpha]
        if not any(alpha):
            r = self.ops.one()
        else:
            i = next(k for k, m in enumerate(alpha) if m > 0)
            rest = list(alpha); rest[i] -= 1
            tot = self.mu[i] * self.mono(rest)
            for j in range(self.D):
                if rest[j] > 0:
                    r2 = list(rest); r2[j] -= 1
                    tot = tot + self.Sigma[i, j] * self.ops.c(rest[j]) * self.mono(r2)
            r = tot
        self.cache[alpha] = r
        return r

    def expect(self, poly):
        """poly: dict alpha -> coefficient"""
        tot = self.ops.zero()
        for alpha, c in poly.items():
            tot = tot + c * self.mono(alpha)
        return tot


def p_const(D, c):
    return {tuple([0] * D): c}


def p_affine(ops, row, const):
    """polynomial row . x + const"""
    D = len(row)
    p = {tuple([0] * D): const}
    for i in range(D):
        m = [0] * D; m[i] = 1
        p[tuple(m)] = row[i]
    return p


def p_var(ops, D, i):
    m = [0] * D; m[i] = 1
    return {tuple(m): ops.one()}


def p_mul(p, q):
    out = {}
    for m1, c1 in p.items():
        for m2, c2 in q.items():
            m = tuple(a + b for a, b in zip(m1, m2))
            v = c1 * c2
            out[m] = out[m] + v if m in out else v
    return out


def p_add(p, q):
    out = dict(p)
    for m, c in q.items():
        out[m] = out[m] + c if m in out else c
    return out


def p_scale(p, c):
    return {m: v * c for m, v in p.items()}


# ---------------------------------------------------------------------- conditioning / marginals
def schur_conditional(ops, mu, Sigma, a_idx, b_idx):
    """p(x_a | x_b) of N(mu, Sigma): returns (M, b, Sigma_a|b) from covariance Schur complement"""
    Saa = Sigma[np.ix_(a_idx, a_idx)]
    Sab = Sigma[np.ix_(a_idx, b_idx)]
    Sbb = Sigma[np.ix_(b_idx, b_idx)]
    Sbb_i, _ = inv(ops, Sbb)
    M = mm(Sab, Sbb_i)
    b = mu[a_idx] - mv(M, mu[b_idx])
    Sc = Saa - mm(M, Sab.T)
    return M, b, Sc
