"""Verification conditions: equalities between symdom.S elements -> polynomial obligations in
QF_NRA (SMT-LIB2 text) -> z3 (deciding) / cvc5 (cross-check)."""
import math
import time
from fractions import Fraction

import z3

from .symdom import S, _frac


def _num(q):
    q = Fraction(q)
    if q.denominator == 1:
        return f"{q.numerator}.0" if q.numerator >= 0 else f"(- {-q.numerator}.0)"
    if q.numerator >= 0:
        return f"(/ {q.numerator}.0 {q.denominator}.0)"
    return f"(- (/ {-q.numerator}.0 {q.denominator}.0))"


class VC:
    def __init__(self, ctx, extra_assumptions=()):
        self.ctx = ctx
        self.syms = [str(s) for s in ctx.ring.symbols]
        self.obl = []       # (label, K_l, K_r)
        self.aux = []       # auxiliary declarations: (name, kind, poly)  for unmatched sqrt atoms
        self.extra = list(extra_assumptions)   # SMT-LIB strings
        self.bounds = {}    # name -> (lo, hi) extra assumptions
        self._pcache = {}

    # ------------------------------------------------------------------ smt text
    def poly(self, p):
        if p in self._pcache:
            return self._pcache[p]
        terms = []
        for mono, c in p.terms():
            fs = []
            cq = _frac(c)
            if cq != 1 or not any(mono):
                fs.append(_num(cq))
            for i, e in enumerate(mono):
                fs.extend([self.syms[i]] * e)
            terms.append(fs[0] if len(fs) == 1 else "(* " + " ".join(fs) + ")")
        if not terms:
            r = "0.0"
        elif len(terms) == 1:
            r = terms[0]
        else:
            r = "(+ " + " ".join(terms) + ")"
        self._pcache[p] = r
        return r

    def kexpr(self, k):
        """field element as SMT term (with division)"""
        if k.denom == 1:
            return self.poly(k.numer)
        return f"(/ {self.poly(k.numer)} {self.poly(k.denom)})"

    def sign_expr(self, k):
        """SMT term with the same sign as field element k (no division)"""
        if k.denom == 1:
            return self.poly(k.numer)
        return f"(* {self.poly(k.numer)} {self.poly(k.denom)})"

    def header(self, box=None, pin_pi=False):
        lines = ["(set-logic QF_NRA)"]
        for n in self.ctx.names:
            lines.append(f"(declare-fun {n} () Real)")
        for n in sorted(self.ctx.positive):
            lines.append(f"(assert (> {n} 0.0))")
        if pin_pi:
            fr = Fraction(math.pi)
            lines.append(f"(assert (= PI {_num(fr)}))")
        else:
            lines.append("(assert (and (> PI 3.14) (< PI 3.15)))")
        allb = dict(getattr(self.ctx, "var_bounds", {}))
        allb.update(self.bounds)
        for a in getattr(self.ctx, "extra_smt", []):
            lines.append(f"(assert {a})")
        for n, (lo, hi) in allb.items():
            if lo is not None:
                lines.append(f"(assert (>= {n} {_num(lo)}))")
            if hi is not None:
                lines.append(f"(assert (<= {n} {_num(hi)}))")
        for a in self.extra:
            lines.append(f"(assert {a})")
        if box is not None:
            free, (plo, phi) = box
            for n in self.ctx.names:
                if n == "PI" or n in self.bounds:
                    continue
                if n in self.ctx.positive:
                    lines.append(f"(assert (and (>= {n} {_num(plo)}) (<= {n} {_num(phi)})))")
                else:
                    lines.append(f"(assert (and (>= {n} {_num(-free)}) (<= {n} {_num(free)})))")
        return lines

    # ------------------------------------------------------------------ obligations
    def eqK(self, label, kl, kr):
        if kl == kr:
            # syntactically identical normal forms: still an obligation, discharged trivially by
            # the solver (kept so that counts are honest)
            self.obl.append((label, kl, kr, True))
        else:
            self.obl.append((label, kl, kr, False))

    def equal(self, label, l, r):
        ctx = self.ctx
        l = l if isinstance(l, S) else ctx.lift(l)
        r = r if isinstance(r, S) else ctx.lift(r)
        if not isinstance(l, S) or not isinstance(r, S):
            from .symdom import Unsupported
            raise Unsupported(f"non-finite value in claim {label}")
        keys = set(l.t) | set(r.t)
        k0 = ctx._k0()
        from .symdom import COMPOSITE_ATOMS, Unsupported, _frac
        composite_used = any(isinstance(H, int) and H in COMPOSITE_ATOMS for k in keys for (H, p) in k[2]) if COMPOSITE_ATOMS else False
        const_ln = {}
        if COMPOSITE_ATOMS and any(isinstance(G, int) and G in COMPOSITE_ATOMS for k in keys for G in k[1]):
            raise Unsupported("sqrt of an integer that could not be factored completely survives into a claim")
        for k in keys:
            e, s, ln = k
            cl, cr = l.t.get(k, ctx.zero), r.t.get(k, ctx.zero)
            if composite_used and e == 0 and not s and len(ln) == 1:
                (H, p), = ln
                if isinstance(H, int) and p == 1 and all(c.numer.is_ground and c.denom.is_ground for c in (cl, cr)):
                    # constant * ln(integer): decided exactly below, as a product of integer powers
                    q = (_frac(cl.numer.LC) / _frac(cl.denom.LC) if cl != 0 else 0) - (_frac(cr.numer.LC) / _frac(cr.denom.LC) if cr != 0 else 0)
                    const_ln[H] = const_ln.get(H, 0) + q
                    continue
            if composite_used and any(isinstance(H, int) and H in COMPOSITE_ATOMS for (H, p) in ln):
                raise Unsupported("ln of an unfactored integer with a non-constant coefficient")
            self.eqK(f"{label}[{'rat' if k == k0 else self._keyname(k)}]", cl, cr)
        if const_ln:
            # sum_H q_H ln H = 0  <=>  prod_H H^(m q_H) = 1  (m = lcm of the denominators): exact integer arithmetic
            import math
            from fractions import Fraction
            m = 1
            for q in const_ln.values():
                m = m * Fraction(q).denominator // math.gcd(m, Fraction(q).denominator)
            num, den = 1, 1
            for H, q in const_ln.items():
                ex = int(Fraction(q) * m)
                if ex > 0:
                    num *= H ** ex
                elif ex < 0:
                    den *= H ** (-ex)
            ok = (num == den)
            self.eqK(f"{label}[ln of integer constants: product of powers = 1]", ctx.zero if ok else ctx.one, ctx.zero)

    def _keyname(self, k):
        e, s, ln = k
        parts = []
        if e != 0:
            parts.append("exp(" + _short(e) + ")")
        for G in s:
            parts.append(("abs(" + _short(G[1]) + ")") if isinstance(G, tuple) else ("sqrt(" + _short(G) + ")"))
        for H, p in ln:
            parts.append("ln " + _short(H) + (f"^{p}" if p != 1 else ""))
        return " ".join(parts)

    def disj(self, only=None):
        ds = []
        for idx, (label, kl, kr, triv) in enumerate(self.obl):
            if only is not None and idx not in only:
                continue
            a = f"(* {self.poly(kl.numer)} {self.poly(kr.denom)})"
            b = f"(* {self.poly(kr.numer)} {self.poly(kl.denom)})"
            ds.append(f"(not (= {a} {b}))")
        return ds

    def smt_text(self, only=None, box=None, pin_pi=False, perturb=None):
        lines = self.header(box=box, pin_pi=pin_pi)
        ds = self.disj(only)
        if perturb is not None:
            # reachability twin: first non-trivial (or first) obligation with rhs numerator + denominators
            # (the offset is 7/3, not an integer or half-integer: the known normaliser defect shifts a coefficient by (Dy-Dx)/2,
            # and a perturbation by +1 coincided with it for Dy-Dx = 2, which made the twin unsat)
            label, kl, kr, triv = self.obl[perturb]
            a = f"(* 3.0 {self.poly(kl.numer)} {self.poly(kr.denom)})"
            b = f"(* (+ (* 3.0 {self.poly(kr.numer)}) (* 7.0 {self.poly(kr.denom)})) {self.poly(kl.denom)})"
            ds = [f"(not (= {a} {b}))"]
        if not ds:
            lines.append("(assert false)")
        elif len(ds) == 1:
            lines.append(f"(assert {ds[0]})")
        else:
            lines.append("(assert (or " + " ".join(ds) + "))")
        return "\n".join(lines) + "\n(check-sat)\n"

    # ------------------------------------------------------------------ inequalities (dimension-1 sign claims)
    def nonneg_text(self, expr, instances):
        """SMT text asserting  expr < 0  where expr = r + sum_H c_H ln|H| (c_H, r rational functions).
        Every ln atom becomes a real variable w_H; the only facts given about ln are the instances
        ln t <= t - 1 and ln(1/t) <= 1/t - 1 for the listed positive t (valid for all t > 0)."""
        from .symdom import Unsupported
        ctx = self.ctx
        atoms = {}

        def w(H):
            if H not in atoms:
                atoms[H] = f"w!{len(atoms)}"
            return atoms[H]

        def lin(sexpr):
            terms = []
            for (e, sq, ln), c in sexpr.t.items():
                if e != 0 or sq:
                    raise Unsupported("inequality claim with exp/sqrt atoms")
                if not ln:
                    terms.append(self.kexpr(c))
                    continue
                if len(ln) != 1:
                    raise Unsupported("inequality claim with product of ln atoms")
                (H, p), = ln
                if p != 1:
                    raise Unsupported("inequality claim with ln power")
                terms.append(f"(* {self.kexpr(c)} {w(H)})")
            if not terms:
                return "0.0"
            return terms[0] if len(terms) == 1 else "(+ " + " ".join(terms) + ")"

        body = []
        e_smt = lin(expr)
        for t in instances:
            for tt in (t, t.inv()):
                lt = lin(tt.log())
                k = tt.ratpart()
                body.append(f"(assert (<= {lt} (- {self.kexpr(k)} 1.0)))")
                body.append(f"(assert (> {self.sign_expr(k)} 0.0))")
        lines = self.header()
        for H, name in atoms.items():
            lines.append(f"(declare-fun {name} () Real)")
            if isinstance(H, int):
                lo = Fraction(math.log(H)) - Fraction(1, 10**9)
                hi = Fraction(math.log(H)) + Fraction(1, 10**9)
                lines.append(f"(assert (and (> {name} {_num(lo)}) (< {name} {_num(hi)})))")
        # denominators of divisions must be non-zero: they are products of positive quantities here
        lines += body
        lines.append(f"(assert (< {e_smt} 0.0))")
        return "\n".join(lines) + "\n(check-sat)\n"

    # ------------------------------------------------------------------ solving
    @staticmethod
    def z3_check(text, timeout_ms=60000, want_model=False):
        s = z3.Solver()
        s.set("timeout", int(timeout_ms))
        t = time.time()
        try:
            s.from_string(text.replace("(check-sat)", ""))
            r = str(s.check())
        except z3.Z3Exception as ex:
            return "error:" + str(ex)[:200], time.time() - t, None
        dt = time.time() - t
        m = None
        if r == "sat" and want_model:
            m = {}
            mdl = s.model()
            for d in mdl.decls():
                v = mdl[d]
                m[d.name()] = _to_float(v)
        return r, dt, m

    @staticmethod
    def cvc5_check(text, timeout_ms=20000):
        try:
            import cvc5
        except Exception:
            return "unavailable", 0.0
        t = time.time()
        try:
            tm = cvc5.TermManager() if hasattr(cvc5, "TermManager") else None
            slv = cvc5.Solver(tm) if tm is not None else cvc5.Solver()
            slv.setOption("tlimit-per", str(int(timeout_ms)))
            parser = cvc5.InputParser(slv)
            parser.setStringInput(cvc5.InputLanguage.SMT_LIB_2_6, text, "vc")
            sm = parser.getSymbolManager()
            res = None
            while True:
                cmd = parser.nextCommand()
                if cmd.isNull():
                    break
                out = cmd.invoke(slv, sm)
                if "sat" in str(out) or "unknown" in str(out):
                    res = str(out).strip()
            return (res or "unknown"), time.time() - t
        except Exception as ex:
            return "error:" + str(ex)[:100], time.time() - t

    def solve(self, timeout_ms=60000):
        """returns dict(result, time, n_obligations, n_trivial, violated (list of labels), model)"""
        n = len(self.obl)
        ntriv = sum(1 for o in self.obl if o[3])
        text = self.smt_text()
        r, dt, m = self.z3_check(text, timeout_ms, want_model=True)
        out = {"result": r, "time": dt, "n": n, "trivial": ntriv, "violated": [], "model": m, "text": text}
        if r == "sat":
            # which obligations are violated (per-obligation queries), and a well-conditioned model
            viol = []
            for idx, (label, kl, kr, triv) in enumerate(self.obl):
                if triv:
                    continue
                ri, dti, _ = self.z3_check(self.smt_text(only={idx}), min(timeout_ms, 10000))
                out["time"] += dti
                if ri != "unsat":
                    viol.append((idx, label, ri))
                if len(viol) >= 12:
                    break
            out["violated"] = viol
            if viol:
                idxs = {viol[0][0]}
                for box in ((Fraction(2), (Fraction(1, 2), Fraction(2))), (Fraction(4), (Fraction(1, 4), Fraction(4)))):
                    rb, dtb, mb = self.z3_check(self.smt_text(only=idxs, box=box, pin_pi=True), min(timeout_ms, 20000), want_model=True)
                    out["time"] += dtb
                    if rb == "sat":
                        out["model_boxed"] = mb
                        break
        return out


def _short(p):
    t = str(p)
    if len(t) <= 24:
        return t
    import hashlib
    return t[:12] + "~" + hashlib.md5(t.encode()).hexdigest()[:6]


def _to_float(v):
    try:
        if z3.is_rational_value(v):
            return float(Fraction(v.numerator_as_long(), v.denominator_as_long()))
        if z3.is_algebraic_value(v):
            return float(v.approx(30).as_fraction())
        return float(v.as_fraction())
    except Exception:
        try:
            return float(str(v).rstrip("?"))
        except Exception:
            return float("nan")
