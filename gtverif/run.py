"""Check driver:  python -m gtverif.run --prop C01 --tier quick

Runs every harness of the property in a pool of worker processes (fresh interpreter state per
worker, gaussian_toolbox imported from /repo's current working tree), aggregates the solver
verdicts, writes /verif/evidence/<id>.json and replay files, prints KNOWN-FINDING / VIOLATION lines.

exit 0  every harness conclusive and no unlisted violation
exit 1  a violation that known_findings.json does not list (VIOLATION line printed)
exit 2  no violation but some harness inconclusive (timeout / unsupported / engine error)
"""
import argparse
import importlib
import json
import multiprocessing as mp
import os
import queue
import re
import sys
import time

ROOT = os.path.dirname(os.path.dirname(os.path.abspath(__file__)))


def enumerate_cases(mod, tier, seed):
    """the property module's cases; in the thorough tier every semi-symbolic case (some blocks bound to seeded generic
    rationals) is additionally run with two more draws of those rationals"""
    import copy
    cases = list(mod.cases(tier, seed))
    ndraws = getattr(mod, "EXTRA_DRAWS", 2)      # properties whose thorough tier is already long opt out
    if tier == "thorough" and ndraws:
        extra = []
        for c in cases:
            if set((c.config or {}).get("concrete_blocks") or ()) - {"viaL", "upd", "updw", "viaSL", "pxdiag", "pxSL", "nnq"}:
                for k in range(1, ndraws + 1):
                    c2 = copy.copy(c)
                    c2.id = f"{c.id}/draw{k}"
                    c2.config = dict(c.config, rational_draw=k)
                    c2.seed_offset = 1000 * k
                    extra.append(c2)
        cases += extra
    return cases


def _worker(prop, tier, seed, taskq, resq, cvc5):
    os.environ.setdefault("PYTHONDONTWRITEBYTECODE", "1")
    os.environ.setdefault("JAX_PLATFORMS", "cpu")
    os.environ.setdefault("XLA_FLAGS", "--xla_cpu_multi_thread_eigen=false intra_op_parallelism_threads=1")
    import signal
    import warnings
    warnings.filterwarnings("ignore")
    sys.setrecursionlimit(20000)
    import jax
    jax.config.update("jax_enable_x64", True)
    repo = os.environ.get("GTVERIF_REPO", "/repo").rstrip("/")   # /repo unless a scratch worktree is being examined
    if repo != "/repo":
        sys.path.insert(0, repo)
    import gaussian_toolbox
    assert gaussian_toolbox.__file__.startswith(repo + "/"), gaussian_toolbox.__file__
    mod = importlib.import_module(f"gtverif.props.{prop.lower()}")
    cases = enumerate_cases(mod, tier, seed)
    from gtverif.case import run_case

    class _TO(BaseException):
        pass

    def onalarm(sig, frm):
        raise _TO()

    signal.signal(signal.SIGALRM, onalarm)
    while True:
        k = taskq.get()
        if k is None:
            return
        c = cases[k]
        resq.put(("start", k, os.getpid(), time.time()))
        t0 = time.time()
        try:
            signal.alarm(int(c.timeout))
            try:
                r = run_case(c, seed=seed + getattr(c, "seed_offset", 0), cvc5=cvc5)
            finally:
                signal.alarm(0)
        except _TO:
            r = {"id": c.id, "prop": c.prop, "config": c.config, "status": "inconclusive",
                 "detail": f"timeout after {c.timeout}s", "obligations": 0, "discharged": 0, "t_sym": time.time() - t0, "t_solver": 0.0}
        except BaseException as ex:  # noqa
            import traceback
            r = {"id": c.id, "prop": c.prop, "config": c.config, "status": "error",
                 "detail": "harness crashed: " + traceback.format_exc()[-1200:], "obligations": 0, "discharged": 0, "t_sym": time.time() - t0, "t_solver": 0.0}
        r["wall"] = time.time() - t0
        resq.put(("done", k, os.getpid(), r))


def load_known():
    p = os.path.join(ROOT, "known_findings.json")
    if not os.path.exists(p):
        return {"findings": [], "fixed": []}
    return json.load(open(p))


def match_known(known, prop, res):
    """a violation is a known finding iff an entry of the same property matches the case id and every
    violated label"""
    labels = res.get("violated") or ["?"]
    for f in known.get("findings", []):
        if f["property"] != prop:
            continue
        if f.get("adjusted_vc"):
            # the case itself re-checked the property modulo exactly this finding (unsat) -> same defect
            if res.get("known_adjusted") == f["id"] and re.search(f["case"], res["id"]):
                return f
            continue
        if not re.search(f["case"], res["id"]):
            continue
        pats = f.get("labels") or [".*"]
        if all(any(re.search(p, l) for p in pats) for l in labels):
            return f
    return None


def main(argv=None):
    ap = argparse.ArgumentParser()
    ap.add_argument("--prop", required=True)
    ap.add_argument("--tier", default=os.environ.get("VERIF_TIER", "quick"))
    ap.add_argument("--jobs", type=int, default=int(os.environ.get("VERIF_JOBS", "0")) or min(16, os.cpu_count() or 4))
    ap.add_argument("--only", default=None, help="regex on case ids")
    ap.add_argument("--list", action="store_true")
    ap.add_argument("--no-evidence", action="store_true")
    ap.add_argument("--replay", default=None)
    ap.add_argument("--times", action="store_true", help="print per-case timings")
    ap.add_argument("--dump", action="store_true", help="print the full result JSON of every case")
    args = ap.parse_args(argv)
    prop = args.prop.upper()
    tier = args.tier if args.tier in ("quick", "thorough") else "quick"
    seed = int(os.environ.get("VERIF_SEED", "0") or 0)
    os.environ.setdefault("PYTHONDONTWRITEBYTECODE", "1")
    sys.path.insert(0, ROOT)

    if args.replay:
        return replay(args.replay)

    t_start = time.time()
    # enumerate cases in a subprocess-free way: importing the property module does not import jax
    mod = importlib.import_module(f"gtverif.props.{prop.lower()}")
    cases = enumerate_cases(mod, tier, seed)
    ids = [c.id for c in cases]
    assert len(set(ids)) == len(ids), "duplicate case ids: " + str([i for i in ids if ids.count(i) > 1][:3])
    sel = [k for k, c in enumerate(cases) if args.only is None or re.search(args.only, c.id)]
    if args.list:
        for k in sel:
            print(cases[k].id)
        return 0
    # longest first
    sel.sort(key=lambda k: -cases[k].timeout)

    ctx = mp.get_context("spawn")
    taskq, resq = ctx.Queue(), ctx.Queue()
    for k in sel:
        taskq.put(k)
    nproc = max(1, min(args.jobs, len(sel)))
    cvc5 = (tier == "thorough") or os.environ.get("VERIF_CVC5") == "1"
    procs = {}

    def spawn():
        p = ctx.Process(target=_worker, args=(prop, tier, seed, taskq, resq, cvc5), daemon=True)
        p.start()
        procs[p.pid] = p
        return p

    for _ in range(nproc):
        spawn()
    results = {}
    running = {}   # pid -> (k, t0)
    pending = set(sel)
    while pending:
        try:
            msg = resq.get(timeout=2.0)
        except queue.Empty:
            msg = None
        now = time.time()
        if msg is not None:
            kind, k, pid, payload = msg
            if kind == "start":
                running[pid] = (k, payload)
            else:
                results[k] = payload
                pending.discard(k)
                running.pop(pid, None)
        # hard timeouts / dead workers
        for pid, p in list(procs.items()):
            if pid in running:
                k, t0 = running[pid]
                hard = cases[k].timeout * 1.5 + 60
                if now - t0 > hard or not p.is_alive():
                    if p.is_alive():
                        p.kill()
                    p.join(1)
                    del procs[pid]
                    running.pop(pid)
                    if k in pending:
                        results[k] = {"id": cases[k].id, "prop": prop, "config": cases[k].config, "status": "inconclusive",
                                      "detail": "worker killed (hard timeout or crash)", "obligations": 0, "discharged": 0,
                                      "t_sym": now - t0, "t_solver": 0.0, "wall": now - t0}
                        pending.discard(k)
                    if pending:
                        spawn()
            elif not p.is_alive():
                del procs[pid]
                if pending and len(procs) < nproc:
                    spawn()
        if not procs and pending:
            spawn()
    for _ in procs:
        taskq.put(None)
    for p in procs.values():
        p.join(5)
        if p.is_alive():
            p.kill()

    rs = [results[k] for k in sorted(results)]
    if args.times:
        for r in sorted(rs, key=lambda r: -r.get("wall", 0))[:25]:
            print(f"  {r.get('wall', 0):7.1f}s sym={r.get('t_sym', 0):6.1f} z3={r.get('t_solver', 0):6.2f} vars={r.get('n_vars')} obl={r.get('obligations')} {r['status']:12s} {r['id']}")
    if args.dump:
        for r in rs:
            print(json.dumps(r, indent=1, default=str))
    return report(prop, tier, seed, rs, time.time() - t_start, write=not args.no_evidence and args.only is None, total_cases=len(cases))


def report(prop, tier, seed, results, wall, write=True, total_cases=None):
    known = load_known()
    viol, inconc, errors, unsat = [], [], [], []
    known_hits = []
    for r in results:
        st = r["status"]
        if st == "unsat":
            unsat.append(r)
        elif st == "violation":
            f = match_known(known, prop, r)
            if f is not None:
                known_hits.append((r, f))
            else:
                viol.append(r)
        elif st == "error":
            errors.append(r)
        else:
            inconc.append(r)
    os.makedirs(os.path.join(ROOT, "replays", prop), exist_ok=True)
    lines = []
    printed = set()
    for r, f in known_hits:
        key = f.get("id") or f["what"]
        if key in printed:
            continue
        printed.add(key)
        lines.append(f"KNOWN-FINDING: property={prop} {f['what']}")
    for r in viol:
        path = os.path.join(ROOT, "replays", prop, re.sub(r"[^A-Za-z0-9_.-]+", "_", r["id"]) + ".json")
        with open(path, "w") as fh:
            json.dump({"case": r["id"], "config": r["config"], "violated": r.get("violated"), "detail": r["detail"], "replay": r.get("replay")}, fh, indent=1, default=str)
        lines.append(f"VIOLATION property={prop} replay={path}")
        lines.append(f"  case={r['id']} :: {r['detail'][:300]} :: violated={r.get('violated', [])[:4]}")
    for r in inconc + errors:
        lines.append(f"INCONCLUSIVE property={prop} case={r['id']} status={r['status']} :: {r['detail'][:300]}")
    obligations = sum(r.get("obligations", 0) for r in results)
    discharged = sum(r.get("discharged", 0) for r in results)
    t_sym = sum(r.get("t_sym", 0) for r in results)
    t_sol = sum(r.get("t_solver", 0) for r in results)
    print(f"[{prop}/{tier}] cases={len(results)} unsat={len(unsat)} known={len(known_hits)} violations={len(viol)} inconclusive={len(inconc)} errors={len(errors)} obligations={obligations} discharged={discharged} symbolic-exec={t_sym:.1f}s solver={t_sol:.2f}s wall={wall:.1f}s")
    for l in lines:
        print(l)
    if write:
        write_evidence(prop, tier, seed, results, wall, known_hits, viol, inconc, errors)
    if viol:
        return 1
    if inconc or errors:
        return 2
    return 0


def write_evidence(prop, tier, seed, results, wall, known_hits, viol, inconc, errors):
    meta = importlib.import_module(f"gtverif.props.{prop.lower()}")
    funcs, stubs, prims = set(), {}, {}
    for r in results:
        funcs.update(r.get("functions", []))
        for k, v in (r.get("stubs") or {}).items():
            stubs[k] = stubs.get(k, 0) + v
        for k, v in (r.get("prims") or {}).items():
            prims[k] = prims.get(k, 0) + v
    obligations = sum(r.get("obligations", 0) for r in results)
    discharged = sum(r.get("discharged", 0) for r in results)
    conclusive = [r for r in results if r["status"] in ("unsat", "violation")]
    samples = []
    for r in results[:: max(1, len(results) // 4)][:4]:
        samples.append({"case": r["id"], "config": r["config"], "status": r["status"], "n_vars": r.get("n_vars"),
                        "symbolic_blocks": r.get("symbolic_blocks"), "concrete_blocks": r.get("concrete_blocks"),
                        "obligations": r.get("obligations"), "solver": r.get("solver"), "twin": r.get("twin"),
                        "side_conditions": r.get("side_conditions"), "selfcheck_max_relerr": r.get("selfcheck_max_relerr"),
                        "vc_tail": (r.get("sample_vc") or "")[-600:]})
    side_tot = sum((r.get("side_conditions") or {}).get("total", 0) for r in results)
    side_dis = sum((r.get("side_conditions") or {}).get("discharged", 0) for r in results)
    ev = {
        "property_id": prop,
        "tier": tier,
        "seed": seed,
        "level": "other",
        "coverage": {
            "explanation": getattr(meta, "EXPLANATION", "") or (
                "Bounded symbolic verification of the real code: each harness calls the public API, JAX traces the call to a jaxpr "
                "(regenerated from /repo's working tree on this run), the jaxpr is interpreted over exact symbolic reals and the property "
                "becomes polynomial verification conditions decided by z3 (QF_NRA): unsat = holds for every real value of the symbolic "
                "blocks in that configuration; sat = model replayed on the real float64 code before it is reported."),
            "obligations": obligations,
            "discharged": discharged,
            "evaluations": len(results),
            "distinct_nontrivial": len({r["id"] for r in conclusive if r.get("obligations", 0) > 0}),
            "rule": "one evaluation = one harness configuration (shape tuple x class kinds x code path); it is non-trivial when it produced at least one solver obligation and passed the encoding self-check and the reachability twin; ids are distinct by construction",
            "exhaustive": False,
            "harnesses": len(results),
            "harnesses_unsat": sum(1 for r in results if r["status"] == "unsat"),
            "harnesses_violation_known": len(known_hits),
            "harnesses_violation_new": len(viol),
            "harnesses_inconclusive": [{"case": r["id"], "why": r["detail"][:200]} for r in inconc + errors],
            "functions_encoded": sorted(funcs),
            "jaxpr_equations_interpreted": sum(r.get("eqns", 0) for r in results),
            "primitives": prims,
            "stubs": stubs,
            "side_conditions": {"total": side_tot, "discharged_by_solver": side_dis, "assumed": side_tot - side_dis},
            "symbolic_execution_s": round(sum(r.get("t_sym", 0) for r in results), 2),
            "solver_s": round(sum(r.get("t_solver", 0) for r in results), 3),
            "cvc5_s": round(sum(r.get("t_cvc5", 0) for r in results), 3),
            "solvers": {"z3": _z3v(), "cvc5_crosscheck": any("cvc5" in (r.get("solver") or {}) for r in results)},
            "bounds": getattr(meta, "BOUNDS", {}).get(tier, getattr(meta, "BOUNDS", "")),
            "configurations": [r["id"] for r in results],
            "known_findings_hit": sorted({f.get("id") or f["what"] for _, f in known_hits}),
            "samples": samples,
        },
        "assumptions": getattr(meta, "ASSUMPTIONS", []) + COMMON_ASSUMPTIONS,
        "wall_s": round(wall, 2),
        "violations": len(viol),
    }
    os.makedirs(os.path.join(ROOT, "evidence"), exist_ok=True)
    with open(os.path.join(ROOT, "evidence", f"{prop}.json"), "w") as fh:
        json.dump(ev, fh, indent=1, default=str)


COMMON_ASSUMPTIONS = [
    "claims are over exact real arithmetic: floating-point rounding, overflow and loss of positive definiteness by cancellation are outside (self-check and replay run in float64)",
    "shapes / batch sizes / class-and-path configurations are enumerated up to the stated bounds; values are universally quantified by the solver, nothing beyond the bounds is claimed",
    "stubs: cho_solve(cho_factor(A),B) = adj(A)/det(A) B and slogdet(A) = (1, ln|det A|) for the positive definite A the library passes; cholesky/triangular_solve interpreted by the textbook recursions",
    "float literals that equal k/2*ln(2 pi), pi^(k/2), sqrt(2), ln 2 to 4 ulp are read as those constants (PI is a solver variable in (3.14,3.15))",
    "arguments of sqrt/log inside the library are positive and divisors non-zero (side conditions: discharged by z3 where it answers within 2 s, otherwise assumed; counts in coverage.side_conditions)",
    "XLA compilation of the jaxpr is trusted (jit = the same jaxpr)",
]


def _z3v():
    try:
        import z3
        return z3.get_version_string()
    except Exception:
        return "?"


def replay(path):
    d = json.load(open(path))
    print(json.dumps({k: d[k] for k in ("case", "violated", "detail")}, indent=1))
    prop = d["case"].split("/")[0]
    os.environ["VERIF_JOBS"] = "1"
    return main(["--prop", prop, "--only", "^" + re.escape(d["case"]) + "$", "--no-evidence"])


if __name__ == "__main__":
    sys.exit(main())
