"""Harness framework: a Case = (symbolic inputs, a function calling the real library, claims).

run_case():  trace fn -> jaxpr -> symbolic outputs -> claims -> VC -> z3 verdict
             + encoding self-check (symbolic vs float64 real run at seeded rational points)
             + reachability twin (perturbed claim must be sat; assumptions alone sat)
             + on sat: model -> replay of the same closure on the real float64 code.
"""
import math
import random
import time
import traceback
from fractions import Fraction

import numpy as np

from .symdom import Ctx, S, Unsupported


class Inp:
    def __init__(self, name, kind, shape, value=None):
        self.name, self.kind, self.shape, self.value = name, kind, tuple(shape), value


class Builder:
    """Declares the symbolic inputs of a case.  Kinds:
    free    arbitrary reals                      pos     positive reals
    spd     R x D x D, Sigma_r = L_r L_r^T with L lower triangular, positive diagonal (bijective
            parametrisation of SPD matrices)     diag    R x D x D diagonal with positive diagonal
    const   concrete rationals (semi-symbolic configurations / fixed data)
    """

    def __init__(self, seed=0):
        self.inputs = []
        self.rng = random.Random(seed)
        self.extra_assumptions = []   # callables(ctx, vc) -> list of smt strings, or plain strings
        self.bounds = {}
        self.phi_names = []
        self.exp_aliases = []     # (scalar variable name, T name, scale): exp(scale*var) = T (see symdom.Ctx.exp_subst)

    def _add(self, name, kind, shape, value=None):
        assert all(i.name != name for i in self.inputs), name
        self.inputs.append(Inp(name, kind, shape, value))
        return name

    def free(self, name, shape): return self._add(name, "free", shape)
    def pos(self, name, shape): return self._add(name, "pos", shape)
    def spd(self, name, R, D): return self._add(name, "spd", (R, D, D))
    def diag(self, name, R, D): return self._add(name, "diag", (R, D, D))

    def phi_slots(self, n):
        """reserve n field generators for values of the standard normal cdf (see gtverif/phi.py)"""
        self.phi_names = [f"PHI_{k}" for k in range(n)]

    def exp_alias(self, varname, tname, scale=1):
        """declare T = exp(scale * var) as an independent positive field generator (var: name of one scalar
        entry of a free/pos input, e.g. 'w0_0')"""
        self.exp_aliases.append((varname, tname, Fraction(scale)))

    def assume(self, smt_fn):
        """extra assumption: callable(ctx, vc) -> SMT-LIB boolean term over the declared variables"""
        self.extra_assumptions.append(smt_fn)

    def derived(self, name, shape, fn):
        """an input whose entries are functions of earlier inputs (e.g. a precision supplied
        *consistently* with a covariance): fn(I, ops) -> object array of that shape"""
        return self._add(name, "derived", shape, fn)

    def const(self, name, value):
        value = np.asarray(value, dtype=object)
        return self._add(name, "const", value.shape, value)

    # seeded generic rationals for semi-symbolic blocks
    def rat(self, lo=-2, hi=2, den=(1, 2, 3, 4)):
        d = self.rng.choice(den)
        n = self.rng.randint(lo * d, hi * d)
        return Fraction(n, d)

    def rat_array(self, shape, nonzero=False):
        a = np.empty(shape, dtype=object)
        for idx in np.ndindex(*shape):
            v = self.rat()
            while nonzero and v == 0:
                v = self.rat()
            a[idx] = v
        return a

    def rat_spd(self, R, D):
        """generic rational SPD matrices L L^T, diag(L) in {1/2..2}"""
        out = np.empty((R, D, D), dtype=object)
        for r in range(R):
            L = np.empty((D, D), dtype=object)
            for i in range(D):
                for j in range(D):
                    if j > i:
                        L[i, j] = Fraction(0)
                    elif j == i:
                        L[i, j] = self.rng.choice([Fraction(1, 2), Fraction(1), Fraction(3, 2), Fraction(2), Fraction(2, 3)])
                    else:
                        L[i, j] = self.rat(-1, 1, (1, 2, 3))
            out[r] = L.dot(L.T)
        return out

    # ---- materialisation
    def names(self):
        names, positive = list(self.phi_names), []
        for _v, t, _s in self.exp_aliases:
            names.append(t); positive.append(t)
        for i in self.inputs:
            if i.kind in ("free", "pos"):
                for idx in np.ndindex(*i.shape):
                    n = i.name + "".join(f"_{k}" for k in idx)
                    names.append(n)
                    if i.kind == "pos":
                        positive.append(n)
            elif i.kind == "spd":
                R, D, _ = i.shape
                for r in range(R):
                    for a in range(D):
                        for b in range(a + 1):
                            n = f"{i.name}_{r}_{a}_{b}"
                            names.append(n)
                            if a == b:
                                positive.append(n)
            elif i.kind == "diag":
                R, D, _ = i.shape
                for r in range(R):
                    for a in range(D):
                        n = f"{i.name}_{r}_{a}"
                        names.append(n); positive.append(n)
        return names, positive

    def build(self, ctx):
        out = {}
        for i in self.inputs:
            if i.kind in ("free", "pos"):
                a = np.empty(i.shape, dtype=object)
                for idx in np.ndindex(*i.shape):
                    a[idx] = ctx.var(i.name + "".join(f"_{k}" for k in idx))
            elif i.kind == "spd":
                R, D, _ = i.shape
                L = np.empty((R, D, D), dtype=object)
                for r in range(R):
                    for x in range(D):
                        for y in range(D):
                            L[r, x, y] = ctx.var(f"{i.name}_{r}_{x}_{y}") if y <= x else ctx.ZERO
                a = np.einsum("rij,rkj->rik", L, L)
            elif i.kind == "diag":
                R, D, _ = i.shape
                a = np.empty((R, D, D), dtype=object)
                for r in range(R):
                    for x in range(D):
                        for y in range(D):
                            a[r, x, y] = ctx.var(f"{i.name}_{r}_{x}") if x == y else ctx.ZERO
            elif i.kind == "derived":
                from .spec import SymOps
                a = np.asarray(i.value(out, SymOps(ctx)), dtype=object)
                assert tuple(a.shape) == tuple(i.shape), (a.shape, i.shape)
            elif i.kind == "const":
                a = np.empty(i.shape, dtype=object)
                for idx in np.ndindex(*i.shape):
                    a[idx] = ctx.const(Fraction(i.value[idx]))
                if a.shape == ():
                    a[()] = ctx.const(Fraction(i.value[()]))
            out[i.name] = a
        return out


class Case:
    """One harness.
    declare(b)            -> declares inputs on the Builder
    fn(**arrays)          -> calls the real library; returns a pytree (dict) of arrays
    claims(I, O, ops)     -> list of (label, lhs, rhs) arrays / scalars over the scalar field of ops
    """

    def __init__(self, cid, prop, config, declare, fn, claims, timeout=120, hooks=None, normals=None,
                 noninterference=None, notes=None, adjusted=None, env=None, replay_scales=None, sat_note=None):
        self.id, self.prop, self.config = cid, prop, config
        self.declare, self.fn, self.claims = declare, fn, claims
        self.timeout = timeout
        self.hooks = hooks
        self.normals = normals            # name of the input standing for jax.random.normal output
        self.noninterference = noninterference  # callable(I, O) -> list of (label, S element, allowed var prefixes)
        self.notes = notes or ""
        # (finding id, claims_fn): the property re-stated modulo one specific known defect; if the
        # plain VC is sat but this one is unsat the violation is exactly that finding
        self.adjusted = adjusted
        self.env = env          # optional callable(ctx, rng) -> numeric environment satisfying the case's assumptions
        # optional (variable-name prefixes, [scale factors]): after a sat verdict whose model does not reproduce at O(1)
        # inputs, the replay is repeated with those variables scaled and the error measured relative to the NATURAL SCALE
        # of each claimed array (the property's notion of equality) -- for deviations that only matter at small scales
        self.replay_scales = replay_scales
        self.sat_note = sat_note    # what a non-reproducing sat verdict means for this case (default: encoding suspect)


def _flat(x):
    if isinstance(x, np.ndarray):
        return list(x.reshape(-1))
    return [x]


def eval_inputs(I_sym, env):
    out = {}
    for n, a in I_sym.items():
        f = np.empty(a.shape, dtype=float)
        ff = f.reshape(-1)
        for k, s in enumerate(a.reshape(-1)):
            ff[k] = s.evalf(env)
        out[n] = f
    return out


def real_run(case, I_float):
    """run the same closure on the real code, eagerly, float64"""
    import jax
    import jax.numpy as jnp
    args = {n: jnp.asarray(v, dtype=jnp.float64) for n, v in I_float.items()}
    out = case.fn(**args)
    return jax.tree_util.tree_map(lambda a: np.asarray(a, dtype=float), out)


def tree_leaves_with_path(tree):
    import jax
    leaves = jax.tree_util.tree_flatten_with_path(tree, is_leaf=lambda x: isinstance(x, np.ndarray))[0]
    return [(jax.tree_util.keystr(p), l) for p, l in leaves]


def rel_err(a, b):
    a = np.asarray(a, dtype=float); b = np.asarray(b, dtype=float)
    sc = np.maximum(1.0, np.maximum(np.abs(a), np.abs(b)))
    return float(np.max(np.abs(a - b) / sc)) if a.size else 0.0


def random_env(ctx, rng, lo=-1.5, hi=1.5):
    env = {}
    for n in ctx.names:
        if n == "PI":
            env[n] = math.pi
        elif n in ctx.positive:
            env[n] = rng.choice([0.5, 0.75, 1.0, 1.25, 1.5, 2.0]) + rng.randint(0, 8) / 64.0
        else:
            env[n] = rng.randint(int(lo * 16), int(hi * 16)) / 16.0
    return env


def gen_env(case, ctx, rng):
    env = case.env(ctx, rng) if getattr(case, "env", None) else random_env(ctx, rng)
    return env


def run_case(case, seed=0, solver_timeout_ms=60000, cvc5=False, selfcheck_points=2):
    """returns a result dict (JSON-serialisable)"""
    import jax
    from .interp import run_symbolic, is_sym, TraceRaised, ProducesNaN
    from .vc import VC
    from .spec import SymOps, FloatOps

    res = {"id": case.id, "prop": case.prop, "config": case.config, "status": "inconclusive", "detail": "",
           "t_sym": 0.0, "t_solver": 0.0, "obligations": 0, "discharged": 0}
    t0 = time.time()
    b = Builder(seed)
    case.declare(b)
    names, positive = b.names()
    ctx = Ctx(names, positive)
    I = b.build(ctx)
    order = [i.name for i in b.inputs]
    hooks = dict(case.hooks or {})
    for v, t, sc in b.exp_aliases:
        assert v in names, v
        ctx.exp_subst[v] = (t, sc)
        ctx.env_fixups.append(lambda env, v=v, t=t, sc=sc: env.__setitem__(t, math.exp(float(sc) * env[v])))
        if v in ctx.positive:
            ctx.extra_smt.append(f"(> {t} 1.0)" if sc > 0 else f"(< {t} 1.0)")
    if b.phi_names:
        from .phi import PhiTable
        ctx.phi = PhiTable(ctx, b.phi_names)
        hooks.update(ctx.phi.hooks())
    # assumptions declared by the case must be visible to the sign oracle during interpretation
    _vc_tmp = None
    res["n_vars"] = len(names)
    res["symbolic_blocks"] = [i.name for i in b.inputs if i.kind != "const"]
    res["concrete_blocks"] = [i.name for i in b.inputs if i.kind == "const"]

    # sign oracle: decide the sign of a polynomial under the declared assumptions with z3
    sign_stats = {"queries": 0, "time": 0.0}
    vc0 = VC(ctx)
    vc0.bounds = dict(b.bounds)
    for a in b.extra_assumptions:
        ctx.extra_smt.append(a if isinstance(a, str) else a(ctx, vc0))
    def sign_oracle(k):
        out = None
        for sg, op in ((1, "<="), (-1, ">=")):
            text = "\n".join(vc0.header()) + f"\n(assert ({op} {vc0.sign_expr(k)} 0.0))\n"
            r, dt, _ = VC.z3_check(text, 3000)
            sign_stats["queries"] += 1; sign_stats["time"] += dt
            if r == "unsat":
                out = sg
                break
            if r != "sat":
                break
        return out
    ctx.sign_oracle = sign_oracle

    def fn_pos(*arrs):
        return case.fn(**dict(zip(order, arrs)))

    fresh = None
    if case.normals is not None:
        def fresh(shape):
            z = I[case.normals]
            assert tuple(z.shape) == tuple(shape), (z.shape, shape)
            return z
    # ---------------------------------------------------------------- symbolic execution
    try:
        O, it, cj = run_symbolic(ctx, fn_pos, [I[n] for n in order], hooks=hooks, fresh_normals=fresh)
    except Unsupported as ex:
        res.update(status="inconclusive", detail=f"Unsupported: {ex}", t_sym=time.time() - t0)
        return res
    except ProducesNaN as pn:
        # the real code produces NaN for every input of this configuration (e.g. out-of-bounds gather)
        rng = random.Random(seed + 17)
        best = None
        for _ in range(2):
            rep = _replay(case, I, gen_env(case, ctx, rng))
            best = rep
            if rep.get("reproduced"):
                break
        res["t_sym"] = time.time() - t0
        res["replay"] = best
        if best.get("reproduced"):
            res.update(status="violation", detail=f"real code yields a non-finite / wrong value ({pn}); replay: {best.get('worst_label')} lhs={best.get('lhs')} rhs={best.get('rhs')}",
                       violated=[f"nan:{best.get('worst_label')}"])
        else:
            res.update(status="inconclusive", detail=f"interpreter saw {pn} but the float64 run is finite and agrees")
        return res
    except TraceRaised as tr:
        # the real code raised while being traced with inputs the property says are accepted
        ex = tr.ex
        # replay with concrete floats
        rng = random.Random(seed + 17)
        env = gen_env(case, ctx, rng)
        If = eval_inputs(I, env)
        try:
            real_run(case, If)
            res.update(status="inconclusive", detail="trace raised but eager float64 run did not: " + repr(ex)[:300])
            if case.prop == "C18":
                # for C18 'the same values under jit as eagerly' is the property itself: an exception that only occurs
                # under tracing is confirmed by really jitting the harness on concrete floats
                import jax
                import jax.numpy as jnp
                args = {n: jnp.asarray(v, dtype=jnp.float64) for n, v in If.items()}
                try:
                    jax.jit(lambda a: case.fn(**a))(args)
                except Exception as ex3:
                    res.update(status="violation", detail=f"runs eagerly but raises under jax.jit: {type(ex3).__name__}: {str(ex3)[:200]}",
                               violated=[f"raises-under-jit:{type(ex3).__name__}"],
                               replay={"kind": "exception under jit", "inputs": {k: v.tolist() for k, v in If.items()},
                                       "exception": f"{type(ex3).__name__}: {str(ex3)[:500]}"})
        except Exception as ex2:
            res.update(status="violation", detail=f"real code raises {type(ex2).__name__}: {str(ex2)[:300]}",
                       violated=[f"raises:{type(ex2).__name__}"],
                       replay={"kind": "exception", "inputs": {k: v.tolist() for k, v in If.items()},
                               "exception": f"{type(ex2).__name__}: {str(ex2)[:500]}"})
        res["t_sym"] = time.time() - t0
        return res

    except Exception:
        res.update(status="error", detail="engine error: " + traceback.format_exc()[-1500:], t_sym=time.time() - t0)
        return res

    ops = SymOps(ctx)
    try:
        cl = case.claims(I, O, ops)
    except Unsupported as ex:
        res.update(status="inconclusive", detail=f"Unsupported in oracle: {ex}", t_sym=time.time() - t0)
        return res
    res["t_sym"] = time.time() - t0
    res["eqns"] = it.stats["eqns"]
    res["prims"] = it.stats["prims"]
    res["stubs"] = it.stats["stubs"]
    res["functions"] = sorted(it.stats["functions"])
    if ctx.unrecognised_literals:
        res["unrecognised_literals"] = ctx.unrecognised_literals[:5]

    # ---------------------------------------------------------------- encoding self-check
    rng = random.Random(seed + 1)
    sc_max = 0.0
    done_pts, attempts = 0, 0
    while done_pts < selfcheck_points:
        attempts += 1
        if attempts > selfcheck_points + 6:
            res.update(status="error", detail="self-check: could not find a non-singular evaluation point")
            return res
        env = gen_env(case, ctx, rng)
        try:
            If = eval_inputs(I, env)
        except ZeroDivisionError:
            continue
        for fx in ctx.env_fixups:
            fx(env)
        try:
            Of = real_run(case, If)
        except Exception as ex:
            res.update(status="error", detail=f"self-check: eager run raised {ex!r}"[:400])
            return res
        ls = tree_leaves_with_path(O)
        lf = tree_leaves_with_path(Of)
        if len(ls) != len(lf):
            res.update(status="error", detail="self-check: output tree mismatch")
            return res
        singular = False
        vals = []
        for (p1, a), (p2, f) in zip(ls, lf):
            av = np.empty(a.shape, dtype=float)
            avf = av.reshape(-1)
            try:
                for k, s in enumerate(a.reshape(-1)):
                    avf[k] = s.evalf(env)
            except ZeroDivisionError:
                singular = True        # the seeded point lies on a pole of the symbolic output: take another point
                break
            vals.append(av)
        if singular:
            continue
        done_pts += 1
        for (p1, a), (p2, f), av in zip(ls, lf, vals):
            if av.shape != np.asarray(f).shape:
                res.update(status="error", detail=f"self-check: shape mismatch at {p1}: {av.shape} vs {np.asarray(f).shape}")
                return res
            if not np.all(np.isfinite(f)):
                continue
            er = rel_err(av, f)
            sc_max = max(sc_max, er)
            if er > 1e-7:
                res.update(status="error", detail=f"encoding self-check failed at {p1}: rel err {er:.3e} (symbolic interpretation disagrees with the real float64 run)")
                return res
    res["selfcheck_max_relerr"] = sc_max
    res["selfcheck_points"] = selfcheck_points

    # ---------------------------------------------------------------- VC
    vc = VC(ctx)
    vc.bounds = dict(b.bounds)
    nclaims = 0
    shape_bad = [c for c in cl if c[0] == "SHAPE" and tuple(c[2]) != tuple(c[3])]
    res["static_shape_checks"] = sum(1 for c in cl if c[0] == "SHAPE")
    cl = [c for c in cl if c[0] != "SHAPE"]
    if shape_bad:
        # a malformed batch (components of one object with different leading dimensions): confirm on the real code
        rng = random.Random(seed + 23)
        rep = _replay(case, I, gen_env(case, ctx, rng))
        res["replay"] = rep
        res["violated"] = [f"shape:{c[1]} {tuple(c[2])} vs {tuple(c[3])}" for c in shape_bad][:6]
        if rep.get("shape_mismatch"):
            res.update(status="violation", detail=f"malformed result: {res['violated'][0]} (confirmed on the float64 run)")
        else:
            res.update(status="inconclusive", detail=f"shape mismatch in the trace not reproduced eagerly: {res['violated'][0]}")
        return res
    ineqs = [c for c in cl if c[0] == "GE0"]
    cl = [c for c in cl if c[0] != "GE0"]
    # a non-finite value (exact 0/0, 1/0 in the real code's arithmetic) where the property expects a finite one
    from .symdom import Ext
    nonfin = []
    for label, lhs, rhs in cl:
        L, Rr = _flat(lhs), _flat(rhs)
        if len(Rr) == 1 and len(L) > 1:
            Rr = Rr * len(L)
        for k, (x, y) in enumerate(zip(L, Rr)):
            if isinstance(x, Ext) != isinstance(y, Ext):
                nonfin.append(f"{label}#{k}")
    if nonfin:
        rng = random.Random(seed + 17)
        best = None
        for _ in range(2):
            best = _replay(case, I, gen_env(case, ctx, rng))
            if best.get("reproduced"):
                break
        res["replay"] = best
        res["violated"] = [f"nan:{l}" for l in nonfin][:6]
        if best.get("reproduced"):
            res.update(status="violation", detail=f"real code yields a non-finite value where the property expects a finite one ({nonfin[0]}); replay: {best.get('worst_label')} lhs={best.get('lhs')} rhs={best.get('rhs')}")
        else:
            res.update(status="inconclusive", detail=f"interpreter produced a non-finite value at {nonfin[0]} but the float64 run is finite and agrees")
        return res
    for label, lhs, rhs in cl:
        L, Rr = _flat(lhs), _flat(rhs)
        if len(L) != len(Rr):
            if len(Rr) == 1:
                Rr = Rr * len(L)
            else:
                # the real code returned an array of a different size than the property prescribes (e.g. R components where
                # R1*R2 are required): confirm on the float64 run of the same closure, then it is a violation
                rng_s = random.Random(seed + 29)
                env_s = gen_env(case, ctx, rng_s)
                try:
                    If_s = eval_inputs(I, env_s)
                    Of_s = real_run(case, If_s)
                    cl_s = case.claims(If_s, Of_s, FloatOps())
                    same = any(c[0] == label and np.size(c[1]) != np.size(c[2]) and np.size(c[2]) != 1 for c in cl_s if c[0] not in ("GE0", "SHAPE"))
                except Exception as ex_s:
                    same = False
                if same:
                    res.update(status="violation", detail=f"result has {np.shape(lhs)} entries where the property prescribes {np.shape(rhs)} ({label}); confirmed on the float64 run",
                               violated=[f"shape:{label} {np.shape(lhs)} vs {np.shape(rhs)}"],
                               replay={"kind": "shape", "inputs": {k: v.tolist() for k, v in If_s.items()}, "lhs_shape": list(np.shape(lhs)), "rhs_shape": list(np.shape(rhs))})
                else:
                    res.update(status="error", detail=f"claim {label}: shape mismatch {np.shape(lhs)} vs {np.shape(rhs)}")
                return res
        for k, (x, y) in enumerate(zip(L, Rr)):
            vc.equal(f"{label}#{k}", x, y)
            nclaims += 1
    res["claims"] = nclaims
    res["obligations"] = len(vc.obl)
    if not vc.obl:
        res.update(status="error", detail="no obligations")
        return res
    sol = vc.solve(solver_timeout_ms)
    res["t_solver"] = sol["time"]
    res["solver"] = {"z3": sol["result"]}
    res["syntactic_identities"] = sol["trivial"]
    res["sample_vc"] = sol["text"][-1200:] if len(sol["text"]) > 1200 else sol["text"]
    res["vc_bytes"] = len(sol["text"])

    # side conditions (positivity of sqrt/log arguments, non-zero divisors)
    side = {"total": len(ctx.side), "discharged": 0, "assumed": 0, "refuted": []}
    budget = 10.0
    for kind, k in ctx.side:
        if budget <= 0:
            side["assumed"] += 1
            continue
        op = "<=" if kind == "pos" else "="
        text = "\n".join(vc.header()) + f"\n(assert ({op} {vc.sign_expr(k)} 0.0))\n"
        r, dt, _ = VC.z3_check(text, 2000)
        budget -= dt
        res["t_solver"] += dt
        if r == "unsat":
            side["discharged"] += 1
        elif r == "sat" and kind == "pos":
            side["refuted"].append(str(k)[:120])
            side["assumed"] += 1
        else:
            side["assumed"] += 1
    side["sign_oracle_queries"] = sign_stats["queries"]
    res["t_solver"] += sign_stats["time"]
    res["side_conditions"] = side

    # reachability twins: assumptions satisfiable; perturbed claim is sat
    tw = {}
    r, dt, _ = VC.z3_check("\n".join(vc.header()) + "\n", 10000)
    tw["assumptions"] = r
    r2, dt2, _ = VC.z3_check(vc.smt_text(perturb=0), 20000)
    tw["perturbed_claim"] = r2
    res["t_solver"] += dt + dt2
    res["twin"] = tw
    if r != "sat" or r2 != "sat":
        res.update(status="inconclusive", detail=f"vacuity guard failed: assumptions={r} perturbed={r2}")
        return res

    if cvc5:
        rc, dtc = VC.cvc5_check(sol["text"], 20000)
        res["solver"]["cvc5"] = rc
        res["t_cvc5"] = dtc
        if (rc == "sat" and sol["result"] == "unsat") or (rc == "unsat" and sol["result"] == "sat"):
            res.update(status="error", detail=f"solver disagreement z3={sol['result']} cvc5={rc}")
            return res

    # non-interference (C12): variables of output component r must be among the allowed ones
    if case.noninterference is not None and sol["result"] == "unsat":
        bad = []
        for label, elem, allowed in case.noninterference(I, O):
            used = elem.variables()
            extra = [v for v in used if v != "PI" and not any(v == a or v.startswith(a) for a in allowed)]
            if extra:
                bad.append((label, extra[:4]))
        res["noninterference_checked"] = True
        if bad:
            res["noninterference_syntactic_leaks"] = bad[:5]

    # sign claims (dimension-1 inequalities): one solver query each
    ineq_bad = []
    if ineqs and sol["result"] == "unsat":
        res["inequalities"] = []
        for _, label, expr, inst in ineqs:
            for k, ex in enumerate(_flat(expr)):
                try:
                    text = vc.nonneg_text(ex, inst)
                except Unsupported as uex:
                    res.update(status="inconclusive", detail=f"inequality {label}: {uex}")
                    return res
                ri, dti, mi = VC.z3_check(text, solver_timeout_ms, want_model=True)
                res["t_solver"] += dti
                res["obligations"] += 1
                res["inequalities"].append({"label": f"{label}#{k}", "z3": ri})
                if ri == "unsat":
                    if k == 0:
                        # reachability twin: the opposite sign claim must be refutable (sat)
                        rt, dtt, _ = VC.z3_check(vc.nonneg_text(-ex, inst), 20000)
                        res["t_solver"] += dtt
                        res["inequalities"][-1]["twin_opposite_sign"] = rt
                        if rt != "sat":
                            res.update(status="inconclusive", detail=f"inequality {label}: vacuity guard failed ({rt})")
                            return res
                    continue
                ineq_bad.append((f"{label}#{k}", ri, mi))
        if ineq_bad:
            lab, ri, mi = ineq_bad[0]
            if ri != "sat":
                res.update(status="inconclusive", detail=f"inequality {lab}: solver {ri}")
                return res
            rng = random.Random(seed + 9)
            best = None
            for env in [dict({n: float((mi or {}).get(n, 1.0)) for n in ctx.names}, PI=math.pi)] + [gen_env(case, ctx, rng) for _ in range(4)]:
                rep = _replay(case, I, env)
                if best is None or rep.get("reproduced"):
                    best = rep
                if rep.get("reproduced"):
                    break
            res["replay"] = best
            res["violated"] = [l for l, _, _ in ineq_bad]
            if best.get("reproduced"):
                res.update(status="violation", detail=f"sign claim {lab} refuted; replay: {best.get('worst_label')} value={best.get('lhs')}")
            else:
                res.update(status="inconclusive", detail=f"sign claim {lab}: z3 sat (ln abstracted by the given instances) but no float64 counterexample reproduced")
            res["discharged"] = res["obligations"] - len(ineq_bad)
            return res

    if sol["result"] == "unsat":
        res["status"] = "unsat"
        res["discharged"] = res["obligations"]
        return res
    if sol["result"] != "sat":
        res.update(status="inconclusive", detail=f"solver: {sol['result']}")
        return res

    # ---------------------------------------------------------------- sat: replay on the real code
    res["violated"] = [l for _, l, _ in sol["violated"]]
    res["discharged"] = len(vc.obl) - len(sol["violated"])
    models = []
    if sol.get("model_boxed"):
        models.append(("z3-boxed", sol["model_boxed"]))
    if sol.get("model"):
        models.append(("z3", sol["model"]))
    rng = random.Random(seed + 5)
    best = None
    for kind, m in models:
        env = {n: float(m.get(n, 0.0)) for n in ctx.names}
        for n in ctx.positive:
            if n not in m:
                env[n] = 1.0
        env["PI"] = math.pi
        rep = _replay(case, I, env)
        rep["model_kind"] = kind
        if best is None or rep.get("max_err", 0) > best.get("max_err", 0):
            best = rep
        if rep.get("reproduced"):
            break
    if not (best and best.get("reproduced")):
        # the z3 model may be badly conditioned (or depend on PI != pi): the violated obligations are
        # polynomial inequations, so generic well-conditioned points violate them too
        for _ in range(3):
            env = gen_env(case, ctx, rng)
            rep = _replay(case, I, env)
            rep["model_kind"] = "generic-point-after-sat"
            if best is None or rep.get("max_err", 0) > best.get("max_err", 0):
                best = rep
            if rep.get("reproduced"):
                break
    if not (best and best.get("reproduced")):
        # the property quantifies over matrices of ANY absolute scale (only their condition number is bounded): a deviation
        # that is absolute (e.g. a fixed jitter) only shows for small matrices -> replay with every covariance / precision
        # block scaled by 1e-6 (Cholesky factors by 1e-3), standard error metric
        pref = tuple(i.name + "_" for i in b.inputs if i.kind in ("spd", "diag"))
        if pref:
            for _ in range(2):
                env = gen_env(case, ctx, rng)
                for n in list(env):
                    if n.startswith(pref):
                        env[n] = env[n] * 1e-3
                rep = _replay(case, I, env)
                rep["model_kind"] = "generic-point-small-matrices"
                if rep.get("reproduced"):
                    best = rep
                    break
    if not (best and best.get("reproduced")) and case.replay_scales:
        prefixes, scales = case.replay_scales
        for sc in scales:
            env = gen_env(case, ctx, rng)
            for n in list(env):
                if any(n.startswith(pf) for pf in prefixes):
                    env[n] = env[n] * sc
            rep = _replay(case, I, env, natural=True)
            rep["model_kind"] = f"generic-point-scaled-{sc:g}-natural-scale-error"
            if rep.get("reproduced"):
                best = rep
                break
    res["replay"] = best
    if best and best.get("reproduced") and case.adjusted is not None:
        fid, cfn = case.adjusted
        try:
            vca = VC(ctx)
            vca.bounds = dict(b.bounds)
            for label, lhs, rhs in [c for c in cfn(I, O, ops) if c[0] != "GE0"]:
                L, Rr = _flat(lhs), _flat(rhs)
                if len(Rr) == 1 and len(L) > 1:
                    Rr = Rr * len(L)
                for k, (x, y) in enumerate(zip(L, Rr)):
                    vca.equal(f"{label}#{k}", x, y)
            ra, dta, _ = VC.z3_check(vca.smt_text(), solver_timeout_ms)
            res["t_solver"] += dta
            res["adjusted_vc"] = {"finding": fid, "result": ra, "obligations": len(vca.obl)}
            if ra == "unsat":
                res["known_adjusted"] = fid
        except Exception as ex:
            res["adjusted_vc"] = {"finding": fid, "result": "error: " + repr(ex)[:200]}
    if best and best.get("reproduced"):
        res["status"] = "violation"
        res["detail"] = f"z3 sat; replay on real float64 code: {best['worst_label']} lhs={best['lhs']:.12g} rhs={best['rhs']:.12g}"
    else:
        res["status"] = "inconclusive"
        res["detail"] = getattr(case, "sat_note", None) or "z3 sat but the model did not reproduce on the real code (encoding suspect)"
    return res


def _replay(case, I, env, natural=False):
    from .spec import FloatOps
    try:
        If = eval_inputs(I, env)
    except ZeroDivisionError:
        return {"inputs": {}, "reproduced": False, "error": "replay point lies on a pole of a derived input"}
    out = {"inputs": {k: v.tolist() for k, v in If.items()}, "reproduced": False}
    try:
        Of = real_run(case, If)
    except Exception as ex:
        out.update(reproduced=True, exception=f"{type(ex).__name__}: {str(ex)[:300]}", worst_label="raises", lhs=float("nan"), rhs=float("nan"), max_err=float("inf"))
        return out
    try:
        cl = case.claims(If, Of, FloatOps())
    except Exception as ex:
        out.update(error=f"oracle failed on floats: {ex!r}"[:300])
        return out
    worst = (0.0, None, 0.0, 0.0)
    nan = False
    for c in cl:
        if c[0] == "SHAPE":
            if tuple(c[2]) != tuple(c[3]):
                out["shape_mismatch"] = True
                out["reproduced"] = True
                worst = (float("inf"), f"shape:{c[1]}", float("nan"), float("nan"))
            continue
        if c[0] == "GE0":
            _, label, expr, _inst = c
            for k, v in enumerate(np.asarray(expr, dtype=float).reshape(-1)):
                if v < -1e-7 and -v > worst[0]:
                    worst = (float(-v), f"{label}#{k}", float(v), 0.0)
            continue
        label, lhs, rhs = c
        a = np.asarray(lhs, dtype=float); bb = np.asarray(rhs, dtype=float)
        a, bb = np.broadcast_arrays(a, bb)
        floor = 1.0
        if natural and a.size and np.all(np.isfinite(a)) and np.all(np.isfinite(bb)):
            nat = max(float(np.max(np.abs(a))), float(np.max(np.abs(bb))))
            if nat > 1e-200:
                floor = nat          # error relative to the natural scale of the claimed array
        for k, (x, y) in enumerate(zip(a.reshape(-1), bb.reshape(-1))):
            if not (math.isfinite(x) and math.isfinite(y)):
                nan = True
                if worst[0] < float("inf") and math.isfinite(y) and not math.isfinite(x):
                    worst = (float("inf"), f"{label}#{k}", float(x), float(y))
                continue
            er = abs(x - y) / (max(1.0, abs(x), abs(y)) if not natural else floor)
            if er > worst[0]:
                worst = (er, f"{label}#{k}", float(x), float(y))
    out.update(max_err=worst[0], worst_label=worst[1], lhs=worst[2], rhs=worst[3], nonfinite=nan)
    out["reproduced"] = bool(worst[0] > 1e-6)
    return out
