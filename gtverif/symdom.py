"""Exact symbolic real scalars: exp/ln/sqrt polynomials over the rational function field Q(x1..xn).

An element is a finite sum  sum_k c_k * exp(r_k) * prod sqrt(g) * prod ln|h|^p  with c_k, r_k in
K = Q(x1..xn) (sympy FracField, gcd-cancelled), g / h irreducible primitive polynomials (or primes).
Operations that would leave this set raise Unsupported -> the harness is inconclusive, never "passed".

Side conditions (arguments of sqrt / log must be positive, divisors non-zero) are *recorded* in
ctx.side; the VC layer tries to discharge them with the solver and reports the rest as assumed.
"""
from fractions import Fraction
import math
from sympy.polys.fields import field
from sympy.polys.domains import QQ


class Unsupported(Exception):
    pass


FACTOR_TERM_LIMIT = 600  # polynomials with more terms are only square-free decomposed


def _frac(q):
    """sympy QQ element -> Fraction"""
    return Fraction(int(q.numerator), int(q.denominator))


import functools

COMPOSITE_ATOMS = set()     # integers kept as ln atoms although they are not prime (see _prime_factors_raw)


@functools.lru_cache(maxsize=4096)
def _prime_factors_cached(n):
    return tuple(sorted(_prime_factors_raw(n).items()))


def _prime_factors(n):
    return dict(_prime_factors_cached(int(n)))


def _prime_factors_raw(n):
    out = {}
    d = 2
    while d * d <= n and d < 10000:
        while n % d == 0:
            out[d] = out.get(d, 0) + 1
            n //= d
        d += 1
    if n > 1:
        if n < 10 ** 8:
            out[n] = out.get(n, 0) + 1          # no factor below 10^4 and n < 10^8: prime
        else:
            # ln / sqrt atoms of integers are independent only if they are primes: factor as far as is cheap.  A composite
            # cofactor that is too large to split is kept and recorded in COMPOSITE_ATOMS: the VC then decides the
            # constant-coefficient ln part EXACTLY as a product of integer powers (no independence needed) and refuses
            # any other use of such an atom.
            from sympy import factorint, isprime
            if isprime(n):
                out[n] = out.get(n, 0) + 1
            elif n.bit_length() <= 120:
                for p, m in factorint(n).items():
                    out[int(p)] = out.get(int(p), 0) + int(m)
            else:
                for p, m in factorint(n, limit=200000).items():
                    p = int(p)
                    out[p] = out.get(p, 0) + int(m)
                    if p >= 10 ** 8 and not isprime(p):
                        COMPOSITE_ATOMS.add(p)
    return out


class Ctx:
    def __init__(self, names, positive=()):
        names = list(names)
        assert len(set(names)) == len(names), "duplicate variable names"
        if "PI" not in names:
            names.append("PI")
        self.names = names
        self.K, *gens = field(names, QQ)
        self.ring = self.K.ring
        self.g = dict(zip(names, gens))
        self.positive = set(positive) | {"PI"}
        self.zero = self.K(0)
        self.one = self.K(1)
        self.side = []          # (kind, field element) : kind in {"pos", "nonzero"}
        self._side_seen = set()
        self._fac_cache = {}
        self.sign_oracle = None  # callable(field element) -> +1 / -1 / None
        self.unrecognised_literals = []
        self.env_fixups = []     # callables(env) completing a numeric environment (values of Phi atoms)
        self.phi = None
        self.extra_smt = []      # assumptions added during interpretation (e.g. monotonicity of Phi atoms)
        self.var_bounds = {}     # name -> (lo, hi) declared bounds (e.g. Phi atoms in (0,1))
        # exp aliases: variable name -> (T name, scale): exp(scale * var) is the field generator T.  var and
        # exp(scale*var) are algebraically independent, so an identity over Q(.., var, T) holds in particular at
        # T = exp(scale*var) (unsat is sound); models are replayed on the real code, never reported directly.
        self.exp_subst = {}
        self.ZERO = S(self, {})
        self.ONE = S(self, {self._k0(): self.one})
        self._pospoly_cache = {}
        self._sym_idx = None

    def _k0(self):
        return (self.zero, frozenset(), frozenset())

    # ------------------------------------------------------------------ constructors
    def var(self, name):
        return S(self, {self._k0(): self.g[name]})

    def const(self, q):
        q = Fraction(q)
        if q == 0:
            return self.ZERO
        return S(self, {self._k0(): self.K(QQ(q.numerator, q.denominator))})

    def rat(self, k):
        return S(self, {self._k0(): self.K(k)})

    def pi(self):
        return self.var("PI")

    def ln2pi(self):
        return self.rat(2 * self.g["PI"]).log()

    # ------------------------------------------------------------------ float literals
    def lift(self, v):
        if isinstance(v, (S, Ext)):
            return v
        if isinstance(v, bool):
            return self.const(int(v))
        if isinstance(v, int):
            return self.const(v)
        if isinstance(v, Fraction):
            return self.const(v)
        if hasattr(v, "item"):
            v = v.item()
            if isinstance(v, (S, Ext)):
                return v
            if isinstance(v, (bool, int)):
                return self.const(int(v))
        f = float(v)
        if not math.isfinite(f):
            return Ext(self, "nan" if f != f else ("+inf" if f > 0 else "-inf"))
        if f == 0.0:
            return self.ZERO
        fr = Fraction(f)
        if fr.denominator <= (1 << 26):
            return self.const(fr)
        s = self._transcendental(f)
        if s is not None:
            return s
        # a float that is neither a short dyadic rational nor a recognised constant: try a small
        # rational (e.g. 1/3 computed in float) before falling back to the exact binary value
        small = fr.limit_denominator(4096)
        if abs(float(small) - f) <= 2 * math.ulp(f):
            return self.const(small)
        self.unrecognised_literals.append(f)
        return self.const(fr)

    def _transcendental(self, f):
        pi = math.pi
        l2p = math.log(2 * pi)
        PI = self.g["PI"]
        def small(q):
            r = Fraction(q).limit_denominator(96)
            if r != 0 and abs(r.numerator) <= 4096 and abs(float(r) - q) <= 8 * math.ulp(q) + 1e-15 * abs(q):
                return r
            return None
        # q * ln(2 pi)
        r = small(f / l2p)
        if r is not None and abs(f - float(r) * l2p) <= 4 * math.ulp(f):
            return self.ln2pi() * self.const(r)
        # a + b * ln(2 pi) with half-integer a and small b (e.g. D * (1 + ln 2 pi) in entropy())
        for a2 in range(-32, 33):
            if a2 == 0:
                continue
            a = a2 / 2.0
            q = (f - a) / l2p
            rb = Fraction(q).limit_denominator(4)
            if rb != 0 and abs(rb.numerator) <= 64 and abs(f - (a + float(rb) * l2p)) <= 4 * math.ulp(f):
                return self.ln2pi() * self.const(rb) + self.const(Fraction(a2, 2))
        # q * ln 2
        r = small(f / math.log(2.0))
        if r is not None and abs(f - float(r) * math.log(2.0)) <= 4 * math.ulp(f):
            return self.const(2).log() * self.const(r)
        # q * ln(pi)
        r = small(f / math.log(pi))
        if r is not None and abs(f - float(r) * math.log(pi)) <= 4 * math.ulp(f):
            return self.rat(PI).log() * self.const(r)
        # q * pi^(k/2) * 2^(j/2)
        for k in (2, 1, -1, -2, 3, -3, 4, -4):
            for j in (0, 1, -1):
                base = pi ** (k / 2) * 2.0 ** (j / 2)
                r = small(f / base)
                if r is not None and abs(f - float(r) * base) <= 4 * math.ulp(f):
                    s = self.rat(PI) ** Fraction(k, 2)
                    if j:
                        s = s * (self.const(2) ** Fraction(j, 2))
                    return s * self.const(r)
        # q * sqrt(2)
        for j in (1, -1):
            base = 2.0 ** (j / 2)
            r = small(f / base)
            if r is not None and abs(f - float(r) * base) <= 4 * math.ulp(f):
                return (self.const(2) ** Fraction(j, 2)) * self.const(r)
        return None

    # ------------------------------------------------------------------ positivity
    def pos_poly(self, p):
        """cheap syntactic positivity of a ring polynomial (all coefficients > 0 and every odd
        power is of a variable declared positive)"""
        if p == 0:
            return False
        if self._sym_idx is None:
            self._sym_idx = [str(s) in self.positive for s in self.ring.symbols]
        for mono, c in p.terms():
            if c <= 0:
                return False
            for i, e in enumerate(mono):
                if e & 1 and not self._sym_idx[i]:
                    return False
        return True

    def sign_poly(self, p):
        """+1 / -1 if the sign of polynomial p is known (syntactically or by the oracle), else None"""
        if p.is_ground:
            return 1 if p.LC > 0 else -1
        h = p
        if h in self._pospoly_cache:
            return self._pospoly_cache[h]
        r = None
        if self.pos_poly(p):
            r = 1
        elif self.pos_poly(-p):
            r = -1
        elif self.sign_oracle is not None:
            r = self.sign_oracle(self.K(p))
        self._pospoly_cache[h] = r
        return r

    def sign_K(self, k):
        a = self.sign_poly(k.numer)
        b = self.sign_poly(k.denom)
        if a is None or b is None:
            return None
        return a * b

    def split_linear(self, k, vname):
        """k = q * var + rest with q a rational constant and rest free of var, else None"""
        idx = self.names.index(vname)
        for mono in k.denom.keys():
            if mono[idx]:
                return None
        p0 = self.ring.zero
        p1 = self.ring.zero
        for mono, c in k.numer.terms():
            e = mono[idx]
            if e == 0:
                p0 = p0 + self.ring.term_new(mono, c)
            elif e == 1:
                m2 = tuple(0 if i == idx else x for i, x in enumerate(mono))
                p1 = p1 + self.ring.term_new(m2, c)
            else:
                return None
        if p1 == 0:
            return None
        qk = self.K(p1) / self.K(k.denom)
        if not (qk.numer.is_ground and qk.denom.is_ground):
            return None
        q = _frac(qk.numer.LC) / _frac(qk.denom.LC)
        return q, self.K(p0) / self.K(k.denom)

    def atom_square(self, G):
        """square of a sqrt-key atom: prime int p (sqrt p), polynomial g (sqrt g), ('abs', f) (|f|)"""
        if isinstance(G, int):
            return G
        if isinstance(G, tuple):
            return self.K(G[1]) ** 2
        return self.K(G)

    def add_side(self, kind, k):
        key = (kind, k)
        if key in self._side_seen:
            return
        self._side_seen.add(key)
        self.side.append(key)

    # ------------------------------------------------------------------ factorisation
    def factor_poly(self, p):
        """p = c * prod f_i^m_i with f_i primitive, positive leading coefficient; c Fraction"""
        if p in self._fac_cache:
            return self._fac_cache[p]
        if p.is_ground:
            res = (_frac(p.LC) if p != 0 else Fraction(0), [])
        else:
            if len(p) <= FACTOR_TERM_LIMIT:
                try:
                    c, facs = p.factor_list()
                except Exception:
                    c, facs = p.sqf_list()
            else:
                c, facs = p.sqf_list()
            c = _frac(c)
            out = []
            for f, m in facs:
                cont, f = f.primitive()
                c *= _frac(cont) ** m
                if f.LC < 0:
                    f = -f
                    c *= (-1) ** m
                out.append((f, m))
            res = (c, out)
        self._fac_cache[p] = res
        return res

    def factor_K(self, k):
        """k = c * prod f^m (m possibly negative)"""
        cn, fn = self.factor_poly(k.numer)
        cd, fd = self.factor_poly(k.denom)
        d = {}
        for f, m in fn:
            d[f] = d.get(f, 0) + m
        for f, m in fd:
            d[f] = d.get(f, 0) - m
        return cn / cd, [(f, m) for f, m in d.items() if m]


class S:
    """element of the exp/ln/sqrt polynomial algebra"""
    __slots__ = ("ctx", "t")
    __array_priority__ = 1000

    def __init__(self, ctx, terms):
        self.ctx = ctx
        self.t = terms

    @staticmethod
    def _clean(ctx, t):
        return S(ctx, {k: c for k, c in t.items() if c != 0})

    def _co(self, o):
        return o if isinstance(o, (S, Ext)) else self.ctx.lift(o)

    # ---- predicates
    def is_zero(self):
        return not self.t

    def is_rat(self):
        k0 = self.ctx._k0()
        return all(k == k0 for k in self.t)

    def ratpart(self):
        return self.t.get(self.ctx._k0(), self.ctx.zero)

    def as_const(self):
        if not self.t:
            return Fraction(0)
        if self.is_rat():
            k = self.ratpart()
            if k.numer.is_ground and k.denom.is_ground:
                return _frac(k.numer.LC) / _frac(k.denom.LC)
        return None

    # ---- ring operations
    def __add__(self, o):
        o = self._co(o)
        if isinstance(o, Ext):
            return o + self
        if not o.t:
            return self
        if not self.t:
            return o
        t = dict(self.t)
        z = self.ctx.zero
        for k, c in o.t.items():
            v = t.get(k)
            if v is None:
                t[k] = c
            else:
                v = v + c
                if v == 0:
                    del t[k]
                else:
                    t[k] = v
        return S(self.ctx, t)
    __radd__ = __add__

    def __neg__(self):
        return S(self.ctx, {k: -c for k, c in self.t.items()})

    def __sub__(self, o):
        o = self._co(o)
        if isinstance(o, Ext):
            return (-o) + self
        return self + (-o)

    def __rsub__(self, o):
        return self._co(o) - self

    def __mul__(self, o):
        o = self._co(o)
        if isinstance(o, Ext):
            return o * self
        if not self.t or not o.t:
            return self.ctx.ZERO
        ctx = self.ctx
        k0 = ctx._k0()
        if len(self.t) == 1 and len(o.t) == 1:
            (ka, ca), = self.t.items()
            (kb, cb), = o.t.items()
            if ka == k0 and kb == k0:
                return S(ctx, {k0: ca * cb})
        t = {}
        for (e1, s1, l1), c1 in self.t.items():
            for (e2, s2, l2), c2 in o.t.items():
                c = c1 * c2
                if s1 and s2:
                    for G in s1 & s2:
                        c = c * ctx.atom_square(G)
                    s = s1 ^ s2
                else:
                    s = s1 or s2
                if l1 and l2:
                    d = dict(l1)
                    for H, p in l2:
                        d[H] = d.get(H, 0) + p
                    l = frozenset(d.items())
                else:
                    l = l1 or l2
                k = (e1 + e2, s, l)
                v = t.get(k)
                t[k] = c if v is None else v + c
        return S._clean(ctx, t)
    __rmul__ = __mul__

    def inv(self):
        if not self.t:
            return Ext(self.ctx, "+inf")     # IEEE: 1/(+0) = +inf, and 0 * inf = nan (so 0/0 = nan)
        if len(self.t) != 1:
            raise Unsupported("division by multi-term element")
        ((e, s, l), c), = self.t.items()
        if l:
            raise Unsupported("division by ln atom")
        ctx = self.ctx
        if not (c.numer.is_ground):
            ctx.add_side("nonzero", ctx.K(c.numer))
        cc = 1 / c
        for G in s:
            cc = cc / ctx.atom_square(G)
        return S(ctx, {(-e, s, frozenset()): cc})

    def __truediv__(self, o):
        o = self._co(o)
        if isinstance(o, Ext):
            return o.inv() * self
        return self * o.inv()

    def __rtruediv__(self, o):
        return self._co(o) * self.inv()

    def __pow__(self, n):
        if isinstance(n, Ext):
            raise Unsupported("non-finite exponent")
        if isinstance(n, S):
            n = n.as_const()
            if n is None:
                raise Unsupported("symbolic exponent")
        if isinstance(n, float):
            fr = Fraction(n)
            if fr.denominator > 2:
                raise Unsupported(f"power {n}")
            n = fr
        n = Fraction(n)
        if n.denominator == 2:
            return (self ** int(n.numerator)).sqrt()
        if n.denominator != 1:
            raise Unsupported("non half-integer power")
        n = int(n)
        if n < 0:
            return (self ** (-n)).inv()
        r = self.ctx.ONE
        b = self
        while n:
            if n & 1:
                r = r * b
            b = b * b
            n >>= 1
        return r

    # ---- sqrt / log / exp
    def sqrt(self):
        if not self.t:
            return self
        if len(self.t) != 1:
            raise Unsupported("sqrt of multi-term element")
        ((e, s, l), c), = self.t.items()
        if l or s:
            raise Unsupported("sqrt of ln/sqrt atom")
        ctx = self.ctx
        if ctx.sign_K(c) != 1:
            ctx.add_side("pos", c)
        const, facs = ctx.factor_K(c)
        coef = ctx.one
        key = set()
        for f, m in facs:
            h = m // 2  # floor
            sg = ctx.sign_poly(f)
            if sg == -1:        # work with the positive polynomial -f
                f = -f
                if m % 2:
                    const = -const
            if m % 2:
                if sg is None:
                    ctx.add_side("pos", ctx.K(f))   # sqrt(f^odd): f > 0 is a side condition
                key.add(f)
                if h:
                    coef = coef * ctx.K(f) ** h
            elif h:
                if sg is None and h % 2:
                    # sqrt(f^(2h)) = |f|^h with the sign of f unknown: |f| is kept as an atom
                    coef = coef * ctx.K(f) ** (h - 1)
                    key.add(("abs", f))
                else:
                    coef = coef * ctx.K(f) ** h
        if const < 0:
            raise Unsupported("sqrt of a negative constant factor")
        # rational constant: extract squares, remaining primes become integer sqrt atoms
        num, den = const.numerator, const.denominator
        # sqrt(num/den) = sqrt(num*den)/den
        n2 = num * den
        root = 1
        for p, m in _prime_factors(n2).items() if n2 > 1 else []:
            root *= p ** (m // 2)
            if m % 2:
                key.add(int(p))        # (a composite p is tolerated here: it usually disappears under log; the VC refuses it otherwise)
        coef = coef * QQ(root, den)
        return S(ctx, {(e / 2, frozenset(key), frozenset()): coef})

    def log(self):
        if len(self.t) != 1:
            raise Unsupported("log of multi-term element")
        ((e, s, l), c), = self.t.items()
        if l:
            raise Unsupported("log of ln atom")
        ctx = self.ctx
        if ctx.sign_K(c) != 1:
            ctx.add_side("pos", c)
        out = ctx.rat(e) if e != 0 else ctx.ZERO
        d = {}
        for G in s:
            if isinstance(G, tuple):
                d[G[1]] = d.get(G[1], Fraction(0)) + 1          # ln| |f| | = ln|f|
            else:
                d[G] = d.get(G, Fraction(0)) + Fraction(1, 2)
        const, facs = ctx.factor_K(c)
        for f, m in facs:
            d[f] = d.get(f, Fraction(0)) + m
        const = abs(const)
        if const != 1:
            for p, m in _prime_factors(const.numerator).items() if const.numerator > 1 else []:
                d[int(p)] = d.get(int(p), Fraction(0)) + m
            for p, m in _prime_factors(const.denominator).items() if const.denominator > 1 else []:
                d[int(p)] = d.get(int(p), Fraction(0)) - m
        if ctx.exp_subst:
            # ln T = scale * var for an exp alias T = exp(scale * var)
            for vname, (tname, scale) in ctx.exp_subst.items():
                Tp = ctx.g[tname].numer
                q = d.pop(Tp, None)
                if q:
                    qq = q * scale
                    out = out + ctx.var(vname) * ctx.const(qq)
        t = dict(out.t)
        for H, q in d.items():
            if q:
                t[(ctx.zero, frozenset(), frozenset([(H, 1)]))] = ctx.K(QQ(q.numerator, q.denominator))
        return S(ctx, t)

    def exp(self):
        ctx = self.ctx
        r = ctx.zero
        res = ctx.ONE
        for (e, s, l), c in self.t.items():
            if e != 0 or s:
                raise Unsupported("exp of exp/sqrt atom")
            if not l:
                r = r + c
                continue
            if len(l) != 1:
                raise Unsupported("exp of product of ln atoms")
            (H, p), = l
            if p != 1:
                raise Unsupported("exp of nonlinear ln term")
            if not (c.numer.is_ground and c.denom.is_ground):
                raise Unsupported("exp of ln atom with non-constant coefficient")
            q = _frac(c.numer.LC) / _frac(c.denom.LC)
            if isinstance(H, int):
                base = ctx.const(H)
            else:
                sg = ctx.sign_poly(H)
                if sg is None and (q.denominator != 1 or q.numerator % 2):
                    raise Unsupported("exp(q ln|f|) with sign of f unknown")
                base = ctx.rat(H) if sg != -1 else ctx.rat(-H)
            if q.denominator == 1:
                res = res * base ** int(q)
            elif q.denominator == 2:
                res = res * (base ** int(q.numerator)).sqrt()
            else:
                raise Unsupported("exp of ln with coefficient denominator > 2")
        if r != 0 and ctx.exp_subst:
            for vname, (tname, scale) in ctx.exp_subst.items():
                sp = ctx.split_linear(r, vname)
                if sp is None:
                    continue
                q, rest = sp
                m = q / scale
                if m == 0 or m.denominator != 1:
                    continue
                res = res * ctx.var(tname) ** int(m)
                r = rest
        if r != 0:
            res = res * S(ctx, {(r, frozenset(), frozenset()): ctx.one})
        return res

    # ---- inspection
    def variables(self):
        """names of the symbolic variables occurring anywhere in the element"""
        ctx = self.ctx
        syms = [str(x) for x in ctx.ring.symbols]
        used = set()
        def poly(p):
            for mono in p.keys():
                for i, e_ in enumerate(mono):
                    if e_:
                        used.add(syms[i])
        def fe(k):
            poly(k.numer); poly(k.denom)
        for (e, s, l), c in self.t.items():
            fe(c)
            if e != 0:
                fe(e)
            for G in s:
                if isinstance(G, tuple):
                    poly(G[1])
                elif not isinstance(G, int):
                    poly(G)
            for H, _ in l:
                if not isinstance(H, int):
                    poly(H)
        return used

    def __repr__(self):
        parts = []
        for (e, s, l), c in self.t.items():
            p = f"({c})"
            if e != 0:
                p += f"*exp({e})"
            for G in s:
                p += f"*|{G[1]}|" if isinstance(G, tuple) else f"*sqrt({G})"
            for H, pw in l:
                p += f"*ln|{H}|" + (f"^{pw}" if pw != 1 else "")
            parts.append(p)
        return " + ".join(parts) or "0"

    def short(self, n=160):
        r = repr(self)
        return r if len(r) <= n else r[: n - 3] + "..."

    def evalf(self, env):
        """float evaluation; env: name -> float"""
        ctx = self.ctx
        syms = [str(x) for x in ctx.ring.symbols]
        vals = [env[s] for s in syms]
        def evp(p):
            tot = 0.0
            for mono, c in p.terms():
                v = float(_frac(c))
                for i, e_ in enumerate(mono):
                    if e_:
                        v *= vals[i] ** e_
                tot += v
            return tot
        def ev(k):
            return evp(k.numer) / evp(k.denom)
        tot = 0.0
        for (e, s, l), c in self.t.items():
            v = ev(c)
            if e != 0:
                v *= math.exp(ev(e))
            for G in s:
                if isinstance(G, tuple):
                    v *= abs(evp(G[1]))
                else:
                    v *= math.sqrt(G if isinstance(G, int) else evp(G))
            for H, pw in l:
                v *= math.log(abs(H if isinstance(H, int) else evp(H))) ** pw
            tot += v
        return tot


def sdiff(s, varname):
    """exact derivative of an S element with respect to the symbolic variable `varname`"""
    ctx = s.ctx
    gen = ctx.g[varname]
    pgen = gen.numer  # ring generator

    def dK(k):
        return k.diff(gen)

    def dP(p):
        return ctx.K(p.diff(pgen))

    out = ctx.ZERO
    for (e, sq, ln), c in s.t.items():
        # log-derivative of the non-ln part
        coef = dK(c)
        if e != 0:
            coef = coef + c * dK(e)
        for G in sq:
            if isinstance(G, int):
                continue
            if isinstance(G, tuple):
                f = G[1]
                coef = coef + c * dP(f) / ctx.K(f)
            else:
                coef = coef + c * dP(G) / (2 * ctx.K(G))
        if coef != 0:
            out = out + S(ctx, {(e, sq, ln): coef})
        # derivative of the ln monomial
        for (H, p) in ln:
            if isinstance(H, int):
                continue
            dH = dP(H)
            if dH == 0:
                continue
            rest = dict(ln)
            if p == 1:
                del rest[H]
            else:
                rest[H] = p - 1
            out = out + S(ctx, {(e, sq, frozenset(rest.items())): c * p * dH / ctx.K(H)})
    return out



class Ext:
    """extended value +inf / -inf / nan living inside symbolic arrays (one-sided truncation limits).
    Arithmetic follows IEEE conventions where the sign of the finite operand is decidable, otherwise
    the result is nan; nan is absorbing.  An Ext never reaches a verification condition."""
    __slots__ = ("ctx", "k")
    __array_priority__ = 2000

    def __init__(self, ctx, k):
        self.ctx, self.k = ctx, k

    t = {"ext": True}     # so that 'not o.t' style tests treat it as non-zero

    def _nan(self):
        return Ext(self.ctx, "nan")

    def _sgn(self):
        return 1 if self.k == "+inf" else (-1 if self.k == "-inf" else None)

    @staticmethod
    def _sign_of(ctx, o):
        if isinstance(o, Ext):
            return o._sgn()
        o = o if isinstance(o, S) else ctx.lift(o)
        if isinstance(o, Ext):
            return o._sgn()
        if o.is_zero():
            return 0
        c = o.as_const()
        if c is not None:
            return 1 if c > 0 else -1
        if len(o.t) == 1:
            ((e, sq, ln), c), = o.t.items()
            if not ln:
                return ctx.sign_K(c)
        return None

    def is_zero(self): return False
    def is_rat(self): return False
    def as_const(self): return None
    def variables(self): return set()
    def __neg__(self):
        return Ext(self.ctx, {"+inf": "-inf", "-inf": "+inf", "nan": "nan"}[self.k])

    def __add__(self, o):
        if self.k == "nan":
            return self
        if isinstance(o, Ext):
            return self if o.k == self.k else self._nan()
        return self
    __radd__ = __add__

    def __sub__(self, o):
        return self + (-(o if isinstance(o, (S, Ext)) else self.ctx.lift(o)))

    def __rsub__(self, o):
        return (-self) + o

    def __mul__(self, o):
        if self.k == "nan":
            return self
        sg = Ext._sign_of(self.ctx, o)
        if sg is None or sg == 0:
            return self._nan()
        return self if sg > 0 else -self
    __rmul__ = __mul__

    def inv(self):
        return self.ctx.ZERO if self.k != "nan" else self

    def __truediv__(self, o):
        if isinstance(o, Ext):
            return self._nan()
        o = o if isinstance(o, S) else self.ctx.lift(o)
        sg = Ext._sign_of(self.ctx, o)
        if sg is None or sg == 0 or self.k == "nan":
            return self._nan()
        return self if sg > 0 else -self

    def __rtruediv__(self, o):
        return self.ctx.ZERO if self.k != "nan" else self

    def __pow__(self, n):
        if isinstance(n, S):
            n = n.as_const()
        if n is None or self.k == "nan":
            return self._nan()
        n = Fraction(n)
        if n == 0:
            return self.ctx.ONE
        if n < 0:
            return self.ctx.ZERO
        if self.k == "+inf":
            return self
        if n.denominator != 1:
            return self._nan()
        return self if int(n) % 2 else -self

    def sqrt(self):
        return self if self.k == "+inf" else self._nan()

    def exp(self):
        return self if self.k == "+inf" else (self.ctx.ZERO if self.k == "-inf" else self)

    def log(self):
        return self if self.k == "+inf" else self._nan()

    def evalf(self, env):
        return {"+inf": float("inf"), "-inf": float("-inf"), "nan": float("nan")}[self.k]

    def __repr__(self):
        return self.k

    def short(self, n=0):
        return self.k
