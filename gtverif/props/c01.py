"""C01: multiplying a measure by a conjugate factor is pointwise multiplication."""
import itertools
import numpy as np

from ..case import Case
from .common import declare_factor, make_factor, factor_spec_params, spec_eval_ln, fields, gt

PROP = "C01"
EXTRA_DRAWS = 0      # the thorough tier of this property is long already: no additional draws of the generic rationals

BOUNDS = {
    "quick": "every factor kind (general, rank-one, linear, constant, measure, density) x {multiply, *, hadamard, product} x update_full x cached / uncached covariance; D in {1,2}; (R1,R2) in {(1,1),(2,1),(1,2),(2,3)}; N=1 evaluation point; fully symbolic; operand fields compared before / after",
    "thorough": "adds D=3, (R1,R2)=(3,2), hadamard broadcasts in both directions",
}
ASSUMPTIONS = ["positive SEMI-definite precisions appear through the rank-one / linear / constant kinds (Lambda = g v v', 0); general factors and measures are positive definite (Cholesky parametrisation)"]



def _case(ukind, fkind, entry, update_full, warm, D, R1, R2, N, timeout=240):
    cid = f"C01/{entry}/{ukind}x{fkind}/uf{int(update_full)}/warm{int(warm)}/D{D}R{R1}x{R2}N{N}"
    cfg = dict(measure=ukind, factor=fkind, entry=entry, update_full=update_full, cached_covariance=warm,
               D=D, R1=R1, R2=R2, N=N)

    def declare(b):
        declare_factor(b, ukind, "u_", R1, D)
        if entry != "product":
            declare_factor(b, fkind, "f_", R2, D)
        b.free("x", (N, D))

    def fn(**A):
        u = make_factor(ukind, "u_", A, D)
        if warm:
            u.integrate()          # read-only query that populates the covariance cache
        x = A["x"]
        out = {}
        if entry == "product":
            r = u.product()
            out["res"] = r.evaluate_ln(x)
            out["res_exp"] = r.evaluate(x)
            out["u_after"] = fields(u, ("Lambda", "nu", "ln_beta"))
            return out
        f = make_factor(fkind, "f_", A, D)
        if entry == "multiply":
            r = u.multiply(f, update_full=update_full)
        elif entry == "mul":
            r = u * f
        elif entry == "hadamard":
            r = u.hadamard(f, update_full=update_full)
        out["res"] = r.evaluate_ln(x)
        out["res_exp"] = r(x)
        out["u_eval"] = u.evaluate_ln(x)
        out["f_eval"] = f.evaluate_ln(x)
        out["u_after"] = fields(u, ("Lambda", "nu", "ln_beta"))
        out["f_after"] = fields(f, ("Lambda", "nu", "ln_beta"))
        return out

    def claims(I, O, ops):
        x = I["x"]
        pu = factor_spec_params(ops, ukind, "u_", I, R1, D)
        su = spec_eval_ln(ops, pu, x)                     # [R1,N] oracle values of the operands
        cl = []
        if entry == "product":
            tot = ops.zeros((1, N))
            for n in range(N):
                t = ops.zero()
                for i in range(R1):
                    t = t + su[i, n]
                tot[0, n] = t
            cl.append(("product=sum_i ln u_i", O["res"], tot))
            cl.append(("product(exp)", O["res_exp"], ops.exp(tot)))
        else:
            pf = factor_spec_params(ops, fkind, "f_", I, R2, D)
            sf = spec_eval_ln(ops, pf, x)
            cl.append(("operand u evaluates to its definition", O["u_eval"], su))
            cl.append(("operand f evaluates to its definition", O["f_eval"], sf))
            if entry in ("multiply", "mul"):
                exp = ops.zeros((R1 * R2, N))
                for i in range(R1):
                    for j in range(R2):
                        for n in range(N):
                            exp[i * R2 + j, n] = su[i, n] + sf[j, n]
            else:
                R = max(R1, R2)
                exp = ops.zeros((R, N))
                for r in range(R):
                    for n in range(N):
                        exp[r, n] = su[r if R1 > 1 else 0, n] + sf[r if R2 > 1 else 0, n]
            cl.append((f"{entry}: ln res[i*R2+j](x) = ln u_i(x) + ln f_j(x)" if entry != "hadamard" else "hadamard: ln res_r(x) = ln u_r(x) + ln f_r(x)", O["res"], exp))
            cl.append((f"{entry}(exp)", O["res_exp"], ops.exp(exp)))
            for k, v in zip(("Lambda", "nu", "ln_beta"), pf):
                cl.append((f"factor operand unchanged: {k}", O["f_after"][k], v))
        for k, v in zip(("Lambda", "nu", "ln_beta"), pu):
            cl.append((f"measure operand unchanged: {k}", O["u_after"][k], v))
        return cl

    return Case(cid, PROP, cfg, declare, fn, claims, timeout=timeout)


def cases(tier, seed=0):
    out = []
    fkinds = ["conjugate", "onerank", "linear", "constant", "measure", "pdf"]
    if tier == "quick":
        shapes = [(2, 2, 3, 2), (1, 1, 2, 1)]     # (D, R1, R2, N)
        had = [(2, 2, 2, 2), (2, 2, 1, 1), (2, 1, 2, 1)]
        paths = [(False, False), (True, True), (True, False), (False, True)]
    else:
        shapes = [(2, 2, 3, 2), (1, 1, 2, 1), (2, 3, 2, 1), (3, 2, 2, 1), (1, 3, 3, 2), (2, 1, 1, 2)]
        had = [(2, 2, 2, 2), (2, 2, 1, 1), (2, 1, 2, 1), (3, 2, 2, 1), (1, 3, 3, 2), (2, 3, 1, 2)]
        paths = [(False, False), (True, True), (True, False), (False, True)]
    def heavy(fk, D, uf):
        # a density as factor has a rational (inverse) precision: inverting its sum with a symbolic 3x3 precision does not finish (gcd), measured > 240 s
        return D >= 3 and uf and fk == "pdf"

    for fk in fkinds:
        for (D, R1, R2, N) in shapes:
            for (uf, warm) in paths:
                if heavy(fk, D, uf):
                    continue
                out.append(_case("measure", fk, "multiply", uf, warm, D, R1, R2, N))
            out.append(_case("measure", fk, "mul", False, False, D, R1, R2, N))
            out.append(_case("measure", fk, "mul", False, True, D, R1, R2, N))
        for (D, R1, R2, N) in had:
            for (uf, warm) in paths:
                if heavy(fk, D, uf):
                    continue
                out.append(_case("measure", fk, "hadamard", uf, warm, D, R1, R2, N))
    # equal batch sizes on both sides (R1 = R2 >= 2): the OUTER layout i*R2+j is still what multiply and * must return
    for fk in fkinds:
        for (D, R) in ((1, 2), (2, 2)) + (((1, 3),) if tier != "quick" else ()):
            out.append(_case("measure", fk, "mul", False, False, D, R, R, 1))
            out.append(_case("measure", fk, "multiply", True, True, D, R, R, 1))
    # measure kinds other than the plain measure (a density or a diagonal measure as left operand)
    for uk in ("pdf", "diagmeasure", "diagpdf"):
        for fk in ("conjugate", "onerank", "linear"):
            out.append(_case(uk, fk, "multiply", True, False, 2, 2, 2, 1))
            out.append(_case(uk, fk, "hadamard", True, False, 2, 2, 2, 1))
            if tier != "quick":
                out.append(_case(uk, fk, "multiply", False, False, 2, 1, 3, 2))
                out.append(_case(uk, fk, "hadamard", False, True, 2, 2, 1, 2))
    for uk in ("measure", "diagmeasure", "pdf"):
        for warm in (False, True):
            for (D, R1) in ((2, 3), (1, 2)) if tier == "quick" else ((2, 3), (1, 2), (3, 2), (2, 1)):
                if D >= 3 and uk == "pdf":
                    continue      # product of symbolic 3x3 densities: the sum of two inverses does not finish
                out.append(_case(uk, "-", "product", False, warm, D, R1, 0, 2))
    return out
