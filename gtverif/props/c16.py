"""C16: moment matching of approximate conditionals is exact.

(a) moments: get_expected_moments / get_expected_cross_terms / integrate_Sigma_x of LRBF, LSEM and the
    exp / cosh-1 heteroscedastic classes against tilted-Gaussian closed forms of the model DEFINED BY
    THE OBJECT'S OWN condition_on_x (whose structure -- linear read-out + unit-height bumps, or
    AA' + A_k diag(link(Wx+w0)) A_k' -- is asserted symbolically at a symbolic x).
(b) assembly: with the moment functions stubbed by fresh symbolic moments (a positive definite joint
    covariance), the joint / marginal / conditional transformations must be the Gaussian with those
    moments and its exact Gaussian conditional.  (Needed because inverting a covariance that is a
    sum of exp-atoms leaves the symbolic domain.)  (a) and (b) compose to the property.
(c) step / rectified-linear link moments go through truncated Gaussian integrals: decided with the
    normal cdf as a symbolic atom (gtverif/phi.py, as in C20) for Dx = 1 (both signs of the input weight);
    Dx >= 2 makes the standard deviation of the link argument a sqrt of a sum: outside the domain."""
from fractions import Fraction
import numpy as np

from ..case import Case
from .. import spec
from .common import gt, fields, invariant_claims
from .c14 import declare_feature, make_feature, kernel_quadratics, tilted

PROP = "C16"

BOUNDS = {
    "quick": "(a) LRBF / LSEM: Dx=1, Dk<=2, Dy<=2 fully symbolic; heteroscedastic exp and cosh-1: Dx<=2, Dk<=2, Dy=Da=2 and Da>Dy; structure of condition_on_x at symbolic x; (b) assembly for all six classes with stubbed symbolic moments, Dx+Dy<=3",
    "thorough": "(a) feature models up to Dx=3, Dk=3, Dy=3 (Dx=Dk=Dy=2 fully symbolic; larger with the covariance of p(x) concrete), batch of priors with Dx=2; heteroscedastic up to Dx=4 / Dy=Da=Dk=3; (b) Dx=Dy=2 semi-symbolic",
}
ASSUMPTIONS = ["(b) replaces get_expected_moments / get_expected_cross_terms on the instance by fresh symbolic moments (stub): the assembly code is verified for arbitrary moments, the moment code separately in (a)",
               "step and rectified-linear link moments are covered for Dx = 1 only (cdf abstracted to a field generator with the axioms in gtverif/phi.py)",
               "feature-model bumps: RBF exp(-sum((x_d-s_d)/l_d)^2/2); squared exponential exp(-(w'x - w_0)^2/2) (the library's sign convention for the offset)"]

HET = {"exp": "HeteroscedasticExpConditional", "cosh": "HeteroscedasticCoshM1Conditional",
       "step": "HeteroscedasticHeavisideConditional", "relu": "HeteroscedasticReLUConditional"}


def declare_het(b, Dx, Dy, Da, Dk, w_param="free"):
    b.free("M", (1, Dy, Dx)); b.free("bv", (1, Dy)); b.free("A", (1, Dy, Da))
    b.free("W", (Dk, Dx + 1))


def make_het(link, A):
    from gaussian_toolbox import approximate_conditional as ac
    return getattr(ac, HET[link])(M=A["M"], b=A["bv"], A=A["A"], W=A["W"])


def feature_moments_case(model, Dx, Dk, Dy, semi=(), timeout=900, Rx=1, reuse=False):
    """reuse: the SAME density object is first transformed, then updated in place (p_x.update), then transformed again -- the
    moments must be those of the updated density (nothing keyed on the object's identity may survive)"""
    cid = f"C16/moments/{model}/Dx{Dx}Dk{Dk}Dy{Dy}" + (f"/Rx{Rx}" if Rx > 1 else "") + ("/semi-" + "-".join(semi) if semi else "") + ("/reused-after-update" if reuse else "")
    cfg = dict(part="(a) moments + model structure", model=model, Dx=Dx, Dk=Dk, Dy=Dy, R_x=Rx, concrete_blocks=list(semi), density_object_reused_after_update=reuse)

    def declare(b):
        declare_feature(b, model, Dx, Dk, Dy, semi)
        if "Sx" in semi:
            b.const("Sx", b.rat_spd(Rx, Dx))
        else:
            b.spd("Sx", Rx, Dx)
        b.free("mx", (Rx, Dx)); b.free("x", (2, Dx))
        if reuse:
            b.spd("Sx0", Rx, Dx); b.free("mx0", (Rx, Dx))

    def fn(**A):
        import jax.numpy as jnp
        factor, measure, pdf, conditional = gt()
        c = make_feature(model, A)
        if reuse:
            px = pdf.GaussianPDF(Sigma=A["Sx0"], mu=A["mx0"])
            c.get_expected_moments(px); c.get_expected_cross_terms(px)
            px.update(jnp.arange(Rx), pdf.GaussianPDF(Sigma=A["Sx"], mu=A["mx"]))
        else:
            px = pdf.GaussianPDF(Sigma=A["Sx"], mu=A["mx"])
        mu_y, Sigma_y = c.get_expected_moments(px)
        d = c.condition_on_x(A["x"])
        return {"mu_y": mu_y, "Sigma_y": Sigma_y, "Eyx": c.get_expected_cross_terms(px), "cond_mu": d.mu, "cond_Sigma": d.Sigma,
                "cond_mu2": c.get_conditional_mu(A["x"])}

    def claims(I, O, ops):
        Mx = I["M"][0][:, :Dx]; Mk = I["M"][0][:, Dx:]; bb = I["bv"][0]; Sg = I["S"][0]
        kq = kernel_quadratics(ops, model, I, Dx, Dk)
        cl = []
        for r in range(Rx):
            cl += _moment_claims(I, O, ops, r, Mx, Mk, bb, Sg, kq)
        return cl + _structure_claims(I, O, ops, Mx, Mk, bb, Sg, kq)

    def _moment_claims(I, O, ops, r, Mx, Mk, bb, Sg, kq):
        m, S = I["mx"][r], I["Sx"][r]
        mom = spec.Moments(ops, m, S)
        # affine part of mu(x): l_i(x) = (Mx x)_i + b_i
        lin = [spec.p_affine(ops, Mx[i], bb[i]) for i in range(Dy)]
        Ek = []; tm = []
        for k in range(Dk):
            mass, t = tilted(ops, m, S, *kq[k])
            Ek.append(mass); tm.append(t)
        Ekk = [[tilted(ops, m, S, kq[k][0] + kq[l][0], kq[k][1] + kq[l][1], kq[k][2] + kq[l][2])[0] for l in range(Dk)] for k in range(Dk)]
        Emu = ops.zeros((Dy,))
        for i in range(Dy):
            t = mom.expect(lin[i])
            for k in range(Dk):
                t = t + Mk[i, k] * Ek[k]
            Emu[i] = t
        Emm = ops.zeros((Dy, Dy)); Eyx = ops.zeros((Dy, Dx))
        for i in range(Dy):
            for j in range(Dy):
                t = mom.expect(spec.p_mul(lin[i], lin[j]))
                for k in range(Dk):
                    t = t + Mk[j, k] * Ek[k] * tm[k].expect(lin[i]) + Mk[i, k] * Ek[k] * tm[k].expect(lin[j])
                    for l in range(Dk):
                        t = t + Mk[i, k] * Mk[j, l] * Ekk[k][l]
                Emm[i, j] = t
            for j in range(Dx):
                xj = spec.p_var(ops, Dx, j)
                t = mom.expect(spec.p_mul(lin[i], xj))
                for k in range(Dk):
                    t = t + Mk[i, k] * Ek[k] * tm[k].expect(xj)
                Eyx[i, j] = t
        cov = ops.zeros((Dy, Dy))
        for i in range(Dy):
            for j in range(Dy):
                cov[i, j] = Sg[i, j] + Emm[i, j] - Emu[i] * Emu[j]
        return [(f"E[y] under p(y|x)p(x) [prior {r}]", O["mu_y"][r], Emu), (f"Cov[y] under p(y|x)p(x) [prior {r}]", O["Sigma_y"][r], cov),
                (f"E[y x'] under p(y|x)p(x) [prior {r}]", O["Eyx"][r], Eyx)]

    def _structure_claims(I, O, ops, Mx, Mk, bb, Sg, kq):
        cl = []
        # structure of the model the object itself returns when conditioned on x
        x = I["x"]
        em = ops.zeros((2, Dy))
        for n in range(2):
            for i in range(Dy):
                t = bb[i]
                for j in range(Dx):
                    t = t + Mx[i, j] * x[n, j]
                for k in range(Dk):
                    A_, a_, c_ = kq[k]
                    e = c_ - ops.c(Fraction(1, 2)) * spec.quad(x[n], A_, x[n]) + sum(a_[d] * x[n, d] for d in range(Dx))
                    t = t + Mk[i, k] * ops.exp(e)
                em[n, i] = t
        cl.append(("condition_on_x(x).mu = M_x x + M_k k(x) + b with unit-height bumps", O["cond_mu"], em))
        cl.append(("get_conditional_mu(x)", O["cond_mu2"], em))
        cl.append(("condition_on_x(x).Sigma = Sigma", O["cond_Sigma"], np.broadcast_to(Sg[None], (2, Dy, Dy))))
        return cl

    return Case(cid, PROP, cfg, declare, fn, claims, timeout=timeout)


def het_moments_case(link, Dx, Dy, Da, Dk, semi=(), timeout=900):
    cid = f"C16/moments/het-{link}/Dx{Dx}Dy{Dy}Da{Da}Dk{Dk}" + ("/semi-" + "-".join(semi) if semi else "")
    cfg = dict(part="(a) moments", model="heteroscedastic " + link, Dx=Dx, Dy=Dy, Da=Da, Dk=Dk, concrete_blocks=list(semi))

    def declare(b):
        declare_het(b, Dx, Dy, Da, Dk)
        if "Sx" in semi:
            b.const("Sx", b.rat_spd(1, Dx))
        else:
            b.spd("Sx", 1, Dx)
        b.free("mx", (1, Dx))

    def fn(**A):
        factor, measure, pdf, conditional = gt()
        c = make_het(link, A)
        px = pdf.GaussianPDF(Sigma=A["Sx"], mu=A["mx"])
        mu_y, Sigma_y = c.get_expected_moments(px)
        return {"mu_y": mu_y, "Sigma_y": Sigma_y, "Eyx": c.get_expected_cross_terms(px), "ESigma": c.integrate_Sigma_x(px)}

    def claims(I, O, ops):
        M, bb, A_, W = I["M"][0], I["bv"][0], I["A"][0], I["W"]
        m, S = I["mx"][0], I["Sx"][0]
        Ed = []
        for k in range(Dk):
            w = W[k, 1:]; w0 = W[k, 0]
            Z = ops.zeros((Dx, Dx))
            ep, _ = tilted(ops, m, S, Z, w, w0)
            if link == "exp":
                Ed.append(ep)
            else:
                em, _ = tilted(ops, m, S, Z, -w, -w0)
                Ed.append(ops.c(Fraction(1, 2)) * (ep + em) - ops.one())
        ES = spec.mm(A_, A_.T)
        for k in range(Dk):
            for i in range(Dy):
                for j in range(Dy):
                    ES[i, j] = ES[i, j] + A_[i, k] * Ed[k] * A_[j, k]
        mu_y = spec.mv(M, m) + bb
        cov = ES + spec.mm(spec.mm(M, S), M.T)
        mom = spec.Moments(ops, m, S)
        Eyx = ops.zeros((Dy, Dx))
        for i in range(Dy):
            li = spec.p_affine(ops, M[i], bb[i])
            for j in range(Dx):
                Eyx[i, j] = mom.expect(spec.p_mul(li, spec.p_var(ops, Dx, j)))
        return [("E[y]", O["mu_y"][0], mu_y), ("Cov[y] = E[Sigma(x)] + M Sigma_x M'", O["Sigma_y"][0], cov),
                ("E[y x']", O["Eyx"][0], Eyx), ("integrate_Sigma_x = E[AA' + A_k diag(link(Wx+w0)) A_k']", O["ESigma"][0], ES)]

    return Case(cid, PROP, cfg, declare, fn, claims, timeout=timeout)


def het_trunc_moments_case(link, wsign, Dy, Da, timeout=900):
    """(c) step / rectified-linear links, Dx = 1: E[link(h)] through truncated Gaussian integrals, with
    the normal cdf as a symbolic atom (gtverif/phi.py).  The input weight has a fixed sign (both are run)
    so that the standard deviation of h = w x + w0 is rational."""
    Dx, Dk = 1, 1
    cid = f"C16/moments/het-{link}/Dx1Dy{Dy}Da{Da}Dk1/w{'pos' if wsign > 0 else 'neg'}"
    cfg = dict(part="(c) moments of step / rectified-linear links via truncated Gaussian integrals", model="heteroscedastic " + link, Dx=1, Dy=Dy, Da=Da, Dk=1, weight_sign=wsign)

    def declare(b):
        b.free("M", (1, Dy, Dx)); b.free("bv", (1, Dy)); b.free("A", (1, Dy, Da))
        b.pos("wabs", (Dk, Dx)); b.free("w0", (Dk,))
        b.derived("W", (Dk, Dx + 1), lambda I, ops: np.array([[I["w0"][0], I["wabs"][0, 0] * ops.c(wsign)]], dtype=object))
        b.spd("Sx", 1, Dx); b.free("mx", (1, Dx))
        b.phi_slots(3)

    def fn(**A):
        from ..phi import patched_norm
        factor, measure, pdf, conditional = gt()
        with patched_norm():
            c = make_het(link, {"M": A["M"], "bv": A["bv"], "A": A["A"], "W": A["W"]})
            px = pdf.GaussianPDF(Sigma=A["Sx"], mu=A["mx"])
            mu_y, Sigma_y = c.get_expected_moments(px)
            return {"mu_y": mu_y, "Sigma_y": Sigma_y, "ESigma": c.integrate_Sigma_x(px)}

    def claims(I, O, ops):
        M, bb, A_ = I["M"][0], I["bv"][0], I["A"][0]
        m, S = I["mx"][0], I["Sx"][0]
        w = I["W"][0, 1]; w0 = I["W"][0, 0]
        if ops.symbolic:
            sx = ops.sqrt(S[0, 0])
            mh = w * m[0] + w0
            sh = I["wabs"][0, 0] * sx
            t = mh / sh
            Phi, phi = ops.ctx.phi.Phi(t), ops.ctx.phi.phi(t)
        else:
            import math
            sx = math.sqrt(S[0, 0]); mh = w * m[0] + w0; sh = abs(w) * sx; t = mh / sh
            Phi = 0.5 * (1 + math.erf(t / math.sqrt(2))); phi = math.exp(-t * t / 2) / math.sqrt(2 * math.pi)
        Ed = Phi if link == "step" else mh * Phi + sh * phi
        ES = spec.mm(A_, A_.T)
        for i in range(Dy):
            for j in range(Dy):
                ES[i, j] = ES[i, j] + A_[i, 0] * Ed * A_[j, 0]
        cov = ES + spec.mm(spec.mm(M, S), M.T)
        return [("E[y]", O["mu_y"][0], spec.mv(M, m) + bb), ("Cov[y] = E[Sigma(x)] + M Sigma_x M'", O["Sigma_y"][0], cov),
                ("integrate_Sigma_x = AA' + A_k E[link(wx+w0)] A_k'", O["ESigma"][0], ES)]

    return Case(cid, PROP, cfg, declare, fn, claims, timeout=timeout)


def assembly_case(cls, Dx, Dy, semi=(), timeout=900):
    cid = f"C16/assembly/{cls}/Dx{Dx}Dy{Dy}" + ("/semi-" + "-".join(semi) if semi else "")
    cfg = dict(part="(b) assembly of joint / marginal / conditional from (stubbed, symbolic) matched moments", model=cls, Dx=Dx, Dy=Dy, concrete_blocks=list(semi))
    D = Dx + Dy
    Dk = 1
    Da = Dy

    def declare(b):
        if "J" in semi:
            b.const("J", b.rat_spd(1, D))
        else:
            b.spd("J", 1, D)
        b.free("mu", (1, D))
        # parameters of the object itself: irrelevant for the assembly (moments are stubbed), bound to generic rationals
        if cls in ("lrbf", "lsem"):
            b.const("M", b.rat_array((1, Dy, Dx + Dk))); b.const("bv", b.rat_array((1, Dy))); b.const("S", b.rat_spd(1, Dy))
            if cls == "lrbf":
                b.const("centres", b.rat_array((Dk, Dx))); b.const("ls", np.array([[Fraction(3, 2)] * Dx] * Dk, dtype=object))
            else:
                b.const("W", b.rat_array((Dk, Dx + 1)))
        else:
            b.const("M", b.rat_array((1, Dy, Dx))); b.const("bv", b.rat_array((1, Dy)))
            Am = np.empty((1, Dy, Da), dtype=object)
            for i in range(Dy):
                for j in range(Da):
                    Am[0, i, j] = Fraction(2 if i == j else (1 if j < i else 0), 2)
            b.const("A", Am); b.const("W", b.rat_array((Dk, Dx + 1)))

    def fn(**A):
        import jax.numpy as jnp
        factor, measure, pdf, conditional = gt()
        c = make_feature(cls, A) if cls in ("lrbf", "lsem") else make_het(cls, A)
        J, mu = A["J"], A["mu"]
        px = pdf.GaussianPDF(Sigma=J[:, :Dx, :Dx], mu=mu[:, :Dx])
        mu_y = mu[:, Dx:]
        Sy = J[:, Dx:, Dx:]
        Eyx = J[:, Dx:, :Dx] + mu_y[:, :, None] * mu[:, None, :Dx]
        # stub the moment functions on the instance (the assembly code under test calls them)
        object.__setattr__(c, "get_expected_moments", lambda p_x, **kw: (mu_y, Sy))
        object.__setattr__(c, "get_expected_cross_terms", lambda p_x, **kw: Eyx)
        j = c.affine_joint_transformation(px)
        mg = c.affine_marginal_transformation(px)
        cd = c.affine_conditional_transformation(px)
        return {"joint": fields(j), "marg": fields(mg),
                "cond": {"M": cd.M, "b": cd.b, "Sigma": cd.Sigma, "Lambda": cd.Lambda, "ln_det_Sigma": cd.ln_det_Sigma}}

    def claims(I, O, ops):
        J, mu = I["J"][0], I["mu"][0]
        cl = [("joint.mu = (mu_x, mu_y)", O["joint"]["mu"][0], mu), ("joint.Sigma carries Cov[x], Cov[y,x], Cov[y]", O["joint"]["Sigma"][0], J),
              ("marginal.mu = E[y]", O["marg"]["mu"][0], mu[Dx:]), ("marginal.Sigma = Cov[y]", O["marg"]["Sigma"][0], J[Dx:, Dx:])]
        cl += invariant_claims(ops, O["joint"], "joint")
        cl += invariant_claims(ops, O["marg"], "marginal")
        Mc, bc, Sc = spec.schur_conditional(ops, mu, J, list(range(Dx)), list(range(Dx, D)))
        cl += [("conditional M = Cov[x,y] Cov[y]^-1", O["cond"]["M"][0], Mc), ("conditional b", O["cond"]["b"][0], bc),
               ("conditional Sigma = Gaussian conditional of the matched joint", O["cond"]["Sigma"][0], Sc)]
        cl += invariant_claims(ops, O["cond"], "conditional")
        return cl

    return Case(cid, PROP, cfg, declare, fn, claims, timeout=timeout)


def cases(tier, seed=0):
    out = []
    for model in ("lrbf", "lsem"):
        out.append(feature_moments_case(model, 1, 1, 1))
        out.append(feature_moments_case(model, 1, 2, 1))
        out.append(feature_moments_case(model, 1, 1, 2))
        out.append(feature_moments_case(model, 1, 2, 1, Rx=2))     # batch of priors x several kernels: (prior, kernel) layouts
        out.append(feature_moments_case(model, 1, 1, 1, reuse=True))
        out.append(feature_moments_case(model, 2, 2, 1, semi=("Sx",), timeout=900))
        if tier == "thorough":
            out.append(feature_moments_case(model, 1, 2, 2, timeout=3000))
            out.append(feature_moments_case(model, 2, 1, 1, semi=("Sx",), timeout=3000))
            out.append(feature_moments_case(model, 2, 2, 1, semi=("Sx", "Sy"), timeout=3000))
            out.append(feature_moments_case(model, 2, 2, 2, timeout=3000))                       # fully symbolic, 30 variables
            out.append(feature_moments_case(model, 2, 3, 2, semi=("Sx",), timeout=3000))
            out.append(feature_moments_case(model, 3, 2, 1, semi=("Sx",), timeout=3000))
            out.append(feature_moments_case(model, 2, 2, 1, Rx=2, semi=("Sx",), timeout=3000))
            if model == "lsem":        # (the RBF variant of this size needs 35-45 min per run: left out)
                out.append(feature_moments_case(model, 3, 3, 2, semi=("Sx", "Sy"), timeout=3000))
            out.append(feature_moments_case(model, 1, 3, 3, timeout=3000))
    for link in ("exp", "cosh"):
        out.append(het_moments_case(link, 1, 2, 2, 1))
        out.append(het_moments_case(link, 2, 2, 2, 2))
        out.append(het_moments_case(link, 1, 1, 2, 2))       # Da > Dy
        out.append(het_moments_case(link, 2, 1, 1, 1))
        out.append(het_moments_case(link, 3, 3, 3, 3, semi=("Sx",), timeout=900))
        if tier == "thorough":
            out.append(het_moments_case(link, 2, 2, 3, 2, timeout=3000))
            out.append(het_moments_case(link, 3, 2, 2, 2, semi=("Sx",), timeout=3000))
            out.append(het_moments_case(link, 3, 3, 3, 2, timeout=3000))
            out.append(het_moments_case(link, 2, 3, 3, 3, timeout=3000))
            out.append(het_moments_case(link, 4, 2, 2, 2, semi=("Sx",), timeout=3000))
    for link in ("step", "relu"):
        for wsign in (1, -1):
            out.append(het_trunc_moments_case(link, wsign, 1, 1))
            out.append(het_trunc_moments_case(link, wsign, 2, 2))
    for cls in ("lrbf", "lsem", "exp", "cosh", "step", "relu"):
        for (Dx, Dy) in ((1, 1), (2, 1), (1, 2)):
            out.append(assembly_case(cls, Dx, Dy))
        if tier == "thorough":
            out.append(assembly_case(cls, 2, 2, semi=("J",), timeout=1800))
    return out
