"""Shared builders: declare the symbolic parameters of each library class and construct the real
object from arrays inside the traced function."""
from fractions import Fraction
import numpy as np

from .. import spec

FACTOR_KINDS = ["conjugate", "onerank", "linear", "constant", "measure", "pdf"]


def gt():
    import gaussian_toolbox
    from gaussian_toolbox import factor, measure, pdf, conditional
    assert gaussian_toolbox.__file__.startswith("/repo/"), gaussian_toolbox.__file__
    return factor, measure, pdf, conditional


# ---------------------------------------------------------------------------------- factors
def declare_factor(b, kind, pre, R, D):
    """declares the inputs of a factor of the given kind; returns the list of input names"""
    if kind == "conjugate":
        return [b.spd(pre + "L", R, D), b.free(pre + "nu", (R, D)), b.free(pre + "lb", (R,))]
    if kind == "onerank":
        return [b.free(pre + "v", (R, D)), b.pos(pre + "g", (R,)), b.free(pre + "nu", (R, D)), b.free(pre + "lb", (R,))]
    if kind == "linear":
        return [b.free(pre + "nu", (R, D)), b.free(pre + "lb", (R,))]
    if kind == "constant":
        return [b.free(pre + "lb", (R,))]
    if kind in ("measure", "diagmeasure"):
        if kind == "diagmeasure":
            return [b.diag(pre + "L", R, D), b.free(pre + "nu", (R, D)), b.free(pre + "lb", (R,))]
        return [b.spd(pre + "L", R, D), b.free(pre + "nu", (R, D)), b.free(pre + "lb", (R,))]
    if kind == "pdf":
        return [b.spd(pre + "S", R, D), b.free(pre + "mu", (R, D))]
    if kind == "diagpdf":
        return [b.diag(pre + "S", R, D), b.free(pre + "mu", (R, D))]
    raise ValueError(kind)


def make_factor(kind, pre, A, D):
    """construct the real object from the dict of arrays A"""
    factor, measure, pdf, conditional = gt()
    if kind == "conjugate":
        return factor.ConjugateFactor(Lambda=A[pre + "L"], nu=A[pre + "nu"], ln_beta=A[pre + "lb"])
    if kind == "onerank":
        return factor.OneRankFactor(v=A[pre + "v"], g=A[pre + "g"], nu=A[pre + "nu"], ln_beta=A[pre + "lb"])
    if kind == "linear":
        return factor.LinearFactor(nu=A[pre + "nu"], ln_beta=A[pre + "lb"])
    if kind == "constant":
        return factor.ConstantFactor(ln_beta=A[pre + "lb"], num_dim=D)
    if kind == "measure":
        return measure.GaussianMeasure(Lambda=A[pre + "L"], nu=A[pre + "nu"], ln_beta=A[pre + "lb"])
    if kind == "diagmeasure":
        return measure.GaussianDiagMeasure(Lambda=A[pre + "L"], nu=A[pre + "nu"], ln_beta=A[pre + "lb"])
    if kind == "pdf":
        return pdf.GaussianPDF(Sigma=A[pre + "S"], mu=A[pre + "mu"])
    if kind == "diagpdf":
        return pdf.GaussianDiagPDF(Sigma=A[pre + "S"], mu=A[pre + "mu"])
    raise ValueError(kind)


def factor_spec_params(ops, kind, pre, I, R, D):
    """(Lambda[R,D,D], nu[R,D], ln_beta[R]) the object *denotes*, computed from the inputs by the
    definition of the class (not by the library)"""
    Z = ops.zeros
    if kind in ("conjugate", "measure", "diagmeasure"):
        return I[pre + "L"], I[pre + "nu"], I[pre + "lb"]
    if kind == "onerank":
        v, g = I[pre + "v"], I[pre + "g"]
        L = Z((R, D, D))
        for r in range(R):
            for i in range(D):
                for j in range(D):
                    L[r, i, j] = g[r] * v[r, i] * v[r, j]
        return L, I[pre + "nu"], I[pre + "lb"]
    if kind == "linear":
        return Z((R, D, D)), I[pre + "nu"], I[pre + "lb"]
    if kind == "constant":
        return Z((R, D, D)), Z((R, D)), I[pre + "lb"]
    if kind in ("pdf", "diagpdf"):
        Sg, mu = I[pre + "S"], I[pre + "mu"]
        L = Z((R, D, D)); nu = Z((R, D)); lb = Z((R,))
        for r in range(R):
            Li, d = spec.inv(ops, Sg[r])
            L[r] = Li
            nu[r] = spec.mv(Li, mu[r])
            lb[r] = ops.c(Fraction(-1, 2)) * spec.quad(mu[r], Li, mu[r]) - ops.c(Fraction(1, 2)) * ops.lnabs(d) - ops.c(Fraction(D, 2)) * ops.ln2pi()
        return L, nu, lb
    raise ValueError(kind)


def spec_eval_ln(ops, params, x):
    """[R, N] array of ln f_r(x_n) from spec parameters"""
    L, nu, lb = params
    R, N = L.shape[0], x.shape[0]
    out = ops.zeros((R, N))
    for r in range(R):
        for n in range(N):
            out[r, n] = spec.ln_factor(ops, x[n], L[r], nu[r], lb[r])
    return out


def fields(obj, names=("Lambda", "nu", "ln_beta", "Sigma", "ln_det_Sigma", "ln_det_Lambda", "mu", "lnZ")):
    """dict of the (non-None) public array attributes of a library object"""
    out = {}
    for n in names:
        v = getattr(obj, n, None)
        if v is not None:
            out[n] = v
    return out
