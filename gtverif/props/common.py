"""Shared builders: declare the symbolic parameters of each library class and construct the real
object from arrays inside the traced function."""
from fractions import Fraction
import numpy as np

from .. import spec

FACTOR_KINDS = ["conjugate", "onerank", "linear", "constant", "measure", "pdf"]


def gt():
    import gaussian_toolbox
    from gaussian_toolbox import factor, measure, pdf, conditional
    import os
    assert gaussian_toolbox.__file__.startswith(os.environ.get("GTVERIF_REPO", "/repo").rstrip("/") + "/"), gaussian_toolbox.__file__
    return factor, measure, pdf, conditional


# ---------------------------------------------------------------------------------- factors
def declare_factor(b, kind, pre, R, D):
    """declares the inputs of a factor of the given kind; returns the list of input names"""
    if kind == "conjugate":
        return [b.spd(pre + "L", R, D), b.free(pre + "nu", (R, D)), b.free(pre + "lb", (R,))]
    if kind == "onerank":
        return [b.free(pre + "v", (R, D)), b.pos(pre + "g", (R,)), b.free(pre + "nu", (R, D)), b.free(pre + "lb", (R,))]
    if kind == "linear":
        return [b.free(pre + "nu", (R, D)), b.free(pre + "lb", (R,))]
    if kind == "constant":
        return [b.free(pre + "lb", (R,))]
    if kind in ("measure", "diagmeasure"):
        if kind == "diagmeasure":
            return [b.diag(pre + "L", R, D), b.free(pre + "nu", (R, D)), b.free(pre + "lb", (R,))]
        return [b.spd(pre + "L", R, D), b.free(pre + "nu", (R, D)), b.free(pre + "lb", (R,))]
    if kind == "pdf":
        return [b.spd(pre + "S", R, D), b.free(pre + "mu", (R, D))]
    if kind == "diagpdf":
        return [b.diag(pre + "S", R, D), b.free(pre + "mu", (R, D))]
    raise ValueError(kind)


def make_factor(kind, pre, A, D):
    """construct the real object from the dict of arrays A"""
    factor, measure, pdf, conditional = gt()
    if kind == "conjugate":
        return factor.ConjugateFactor(Lambda=A[pre + "L"], nu=A[pre + "nu"], ln_beta=A[pre + "lb"])
    if kind == "onerank":
        return factor.OneRankFactor(v=A[pre + "v"], g=A[pre + "g"], nu=A[pre + "nu"], ln_beta=A[pre + "lb"])
    if kind == "linear":
        return factor.LinearFactor(nu=A[pre + "nu"], ln_beta=A[pre + "lb"])
    if kind == "constant":
        return factor.ConstantFactor(ln_beta=A[pre + "lb"], num_dim=D)
    if kind == "measure":
        return measure.GaussianMeasure(Lambda=A[pre + "L"], nu=A[pre + "nu"], ln_beta=A[pre + "lb"])
    if kind == "diagmeasure":
        return measure.GaussianDiagMeasure(Lambda=A[pre + "L"], nu=A[pre + "nu"], ln_beta=A[pre + "lb"])
    if kind == "pdf":
        return pdf.GaussianPDF(Sigma=A[pre + "S"], mu=A[pre + "mu"])
    if kind == "diagpdf":
        return pdf.GaussianDiagPDF(Sigma=A[pre + "S"], mu=A[pre + "mu"])
    raise ValueError(kind)


def factor_spec_params(ops, kind, pre, I, R, D):
    """(Lambda[R,D,D], nu[R,D], ln_beta[R]) the object *denotes*, computed from the inputs by the
    definition of the class (not by the library)"""
    Z = ops.zeros
    if kind in ("conjugate", "measure", "diagmeasure"):
        return I[pre + "L"], I[pre + "nu"], I[pre + "lb"]
    if kind == "onerank":
        v, g = I[pre + "v"], I[pre + "g"]
        L = Z((R, D, D))
        for r in range(R):
            for i in range(D):
                for j in range(D):
                    L[r, i, j] = g[r] * v[r, i] * v[r, j]
        return L, I[pre + "nu"], I[pre + "lb"]
    if kind == "linear":
        return Z((R, D, D)), I[pre + "nu"], I[pre + "lb"]
    if kind == "constant":
        return Z((R, D, D)), Z((R, D)), I[pre + "lb"]
    if kind in ("pdf", "diagpdf"):
        Sg, mu = I[pre + "S"], I[pre + "mu"]
        L = Z((R, D, D)); nu = Z((R, D)); lb = Z((R,))
        for r in range(R):
            Li, d = spec.inv(ops, Sg[r])
            L[r] = Li
            nu[r] = spec.mv(Li, mu[r])
            lb[r] = ops.c(Fraction(-1, 2)) * spec.quad(mu[r], Li, mu[r]) - ops.c(Fraction(1, 2)) * ops.lnabs(d) - ops.c(Fraction(D, 2)) * ops.ln2pi()
        return L, nu, lb
    raise ValueError(kind)


def spec_eval_ln(ops, params, x):
    """[R, N] array of ln f_r(x_n) from spec parameters"""
    L, nu, lb = params
    R, N = L.shape[0], x.shape[0]
    out = ops.zeros((R, N))
    for r in range(R):
        for n in range(N):
            out[r, n] = spec.ln_factor(ops, x[n], L[r], nu[r], lb[r])
    return out


def fields(obj, names=("Lambda", "nu", "ln_beta", "Sigma", "ln_det_Sigma", "ln_det_Lambda", "mu", "lnZ")):
    """dict of the (non-None) public array attributes of a library object"""
    out = {}
    for n in names:
        v = getattr(obj, n, None)
        if v is not None:
            out[n] = v
    return out


# ---------------------------------------------------------------------------------- invariants (C04)
def invariant_claims(ops, F, tag, want=("SL", "ldS", "ldL", "mu", "lnZ")):
    """Mutual-consistency claims for a dict F of public fields of one object (arrays with leading R).
    Every right-hand side is computed from the returned Lambda / Sigma by cofactors -- never by
    'minus the other field'."""
    from .. import spec
    cl = []
    Lam = F.get("Lambda")
    Sig = F.get("Sigma")
    R = Lam.shape[0]
    D = Lam.shape[1]
    if Sig is not None and "SL" in want:
        prod = np.einsum("rij,rjk->rik", Sig, Lam)
        I = ops.zeros((R, D, D))
        for r in range(R):
            for i in range(D):
                I[r, i, i] = ops.one()
        cl.append((f"{tag}: Sigma Lambda = I", prod, I))
    if F.get("ln_det_Sigma") is not None and "ldS" in want:
        exp = ops.zeros((R,))
        for r in range(R):
            src = Sig[r] if Sig is not None else None
            if src is not None:
                exp[r] = ops.lnabs(spec.det(ops, src))
            else:
                exp[r] = -ops.lnabs(spec.det(ops, Lam[r]))
        cl.append((f"{tag}: ln_det_Sigma = ln det Sigma", F["ln_det_Sigma"], exp))
        exp2 = ops.zeros((R,))
        for r in range(R):
            exp2[r] = -ops.lnabs(spec.det(ops, Lam[r]))
        cl.append((f"{tag}: ln_det_Sigma = -ln det Lambda", F["ln_det_Sigma"], exp2))
    if F.get("ln_det_Lambda") is not None and "ldL" in want:
        exp = ops.zeros((R,))
        for r in range(R):
            exp[r] = ops.lnabs(spec.det(ops, Lam[r]))
        cl.append((f"{tag}: ln_det_Lambda = ln det Lambda", F["ln_det_Lambda"], exp))
    if F.get("mu") is not None and F.get("nu") is not None and "mu" in want:
        # mu = Lambda^-1 nu  <=>  Lambda mu = nu   (avoids a second inverse)
        cl.append((f"{tag}: Lambda mu = nu", np.einsum("rij,rj->ri", Lam, F["mu"]), F["nu"]))
    if F.get("lnZ") is not None and F.get("nu") is not None and "lnZ" in want:
        exp = ops.zeros((R,))
        for r in range(R):
            Li, d = spec.inv(ops, Lam[r])
            exp[r] = ops.c(Fraction(1, 2)) * (spec.quad(F["nu"][r], Li, F["nu"][r]) + ops.c(D) * ops.ln2pi() - ops.lnabs(d))
        cl.append((f"{tag}: lnZ = 1/2(nu' Lambda^-1 nu + D ln 2pi - ln det Lambda)", F["lnZ"], exp))
    return cl


def density_is_normalised_claims(ops, F, tag):
    """'integrates to one' from the returned Lambda, nu, ln_beta only (Gaussian mass axiom)"""
    from .. import spec
    R = F["Lambda"].shape[0]
    lhs = ops.zeros((R,)); rhs = ops.zeros((R,))
    for r in range(R):
        lhs[r] = spec.ln_mass(ops, F["Lambda"][r], F["nu"][r], F["ln_beta"][r])
    return [(f"{tag}: ln integral of the evaluated function = 0", lhs, rhs)]


# ---------------------------------------------------------------------------------- conditionals
COND_KINDS = ["full", "diag", "identity", "identitydiag", "nncontrol"]


def declare_cond(b, kind, pre, R, Dy, Dx, via="Sigma"):
    if kind == "full":
        b.free(pre + "M", (R, Dy, Dx)); b.free(pre + "b", (R, Dy)); b.spd(pre + "S", R, Dy)
    elif kind == "diag":
        b.free(pre + "M", (R, Dy, Dx)); b.free(pre + "b", (R, Dy)); b.diag(pre + "S", R, Dy)
    elif kind == "identity":
        assert Dx == Dy
        b.spd(pre + "S", R, Dy)
    elif kind == "identitydiag":
        assert Dx == Dy
        b.diag(pre + "S", R, Dy)
    elif kind == "nncontrol":
        Du = 1      # R = number of control vectors (a batch of controls gives a batch of conditionals sharing the covariance)
        b.spd(pre + "S", 1, Dy)
        b.free(pre + "u", (R, Du)); b.free(pre + "P", (Du, Dy * (Dx + 1))); b.free(pre + "q", (Dy * (Dx + 1),))
    else:
        raise ValueError(kind)


class CondWrap:
    """uniform call interface over the conditional classes (NN control needs u= everywhere)"""

    def __init__(self, obj, kw):
        self.obj, self.kw = obj, kw

    def __getattr__(self, name):
        f = getattr(self.obj, name)
        if callable(f) and name not in ("slice",):
            return lambda *a, **k: f(*a, **{**self.kw, **k})
        return f

    def __call__(self, x):
        return self.obj(x, **self.kw)


def make_cond(kind, pre, A, Dy, Dx, via="Sigma"):
    """construct the conditional.  Variants are selected by the presence of extra inputs:
       <pre>Lonly  -> built from the precision only (Lambda=, no Sigma)
       <pre>Lboth  -> built from Sigma= and Lambda= together
       <pre>S2     -> update_Sigma(<pre>S2) is called after construction (the object then denotes S2)"""
    factor, measure, pdf, conditional = gt()
    cov = {"Lambda": A[pre + "Lonly"]} if (pre + "Lonly") in A else {"Sigma": A[pre + "S"]}
    if (pre + "Lboth") in A:      # covariance AND a consistent precision supplied (log-determinant left to the constructor)
        cov = {"Sigma": A[pre + "S"], "Lambda": A[pre + "Lboth"]}
    if kind == "full":
        w = CondWrap(conditional.ConditionalGaussianPDF(M=A[pre + "M"], b=A[pre + "b"], **cov), {})
    elif kind == "diag":
        w = CondWrap(conditional.ConditionalGaussianDiagPDF(M=A[pre + "M"], b=A[pre + "b"], **cov), {})
    elif kind == "identity":
        w = CondWrap(conditional.ConditionalIdentityGaussianPDF(**cov), {})
    elif kind == "identitydiag":
        w = CondWrap(conditional.ConditionalIdentityDiagGaussianPDF(**cov), {})
    elif kind == "nncontrol":
        P, q = A[pre + "P"], A[pre + "q"]
        obj = conditional.NNControlGaussianConditional(Sigma=A[pre + "S"], num_cond_dim=Dx, num_control_dim=P.shape[0],
                                                       control_func=lambda u: u @ P + q[None])
        w = CondWrap(obj, {"u": A[pre + "u"]})
    else:
        raise ValueError(kind)
    if (pre + "S2") in A:
        if (pre + "warm") in A:
            # the object is USED before its covariance is replaced (anything cached by those calls must not survive)
            import jax.numpy as jnp
            Rw = A[pre + "u"].shape[0] if kind == "nncontrol" else A[pre + "S"].shape[0]
            w.set_y(jnp.ones((Rw, Dy)))
            w.condition_on_x(jnp.ones((1, Dx))) if kind != "nncontrol" else w.obj.condition_on_x_u(jnp.ones((1, Dx)), A[pre + "u"])
            w.get_conditional_mu(jnp.ones((1, Dx)))
        w.obj.update_Sigma(A[pre + "S2"])
    return w


def cond_spec_params(ops, kind, pre, I, R, Dy, Dx):
    """(M[R,Dy,Dx], b[R,Dy], Sigma[R,Dy,Dy]) that the conditional denotes, by definition"""
    from .. import spec
    S = I[pre + "S2"] if (pre + "S2") in I else I[pre + "S"]
    if kind in ("full", "diag"):
        return I[pre + "M"], I[pre + "b"], S
    if kind in ("identity", "identitydiag"):
        M = ops.zeros((R, Dy, Dx))
        for r in range(R):
            for i in range(Dy):
                M[r, i, i] = ops.one()
        return M, ops.zeros((R, Dy)), S
    if kind == "nncontrol":
        u, P, q = I[pre + "u"], I[pre + "P"], I[pre + "q"]
        Ru = u.shape[0]
        M = ops.zeros((Ru, Dy, Dx)); bb = ops.zeros((Ru, Dy))
        for r in range(Ru):
            outv = ops.zeros((Dy * (Dx + 1),))
            for k in range(Dy * (Dx + 1)):
                t = q[k]
                for a in range(P.shape[0]):
                    t = t + u[r, a] * P[a, k]
                outv[k] = t
            for i in range(Dy):
                for j in range(Dx):
                    M[r, i, j] = outv[i * Dx + j]
                bb[r, i] = outv[Dy * Dx + i]
        Sr = ops.zeros((Ru, Dy, Dy))
        for r in range(Ru):
            Sr[r] = S[0]
        return M, bb, Sr
    raise ValueError(kind)


def spec_cond_logpdf(ops, cp, r, x, y):
    """ln N(y; M_r x + b_r, Sigma_r)"""
    from .. import spec
    M, bb, S = cp
    mean = spec.mv(M[r], x) + bb[r]
    return spec.logN(ops, y, mean, S[r])
