"""Shared case factory for the affine-transformation properties C07 (joint = chain rule),
C08 (marginal), C09 (Bayes + round trip), C10 (set_y)."""
from fractions import Fraction
import numpy as np

from ..case import Case
from .. import spec
from .common import (declare_cond, make_cond, cond_spec_params, spec_cond_logpdf, fields, invariant_claims,
                     density_is_normalised_claims, gt)


CTOR_VARIANTS = (("viaL",), ("upd",), ("updw",), ("viaSL",), ("pxdiag",), ("pxSL",))


def make_prior(A):
    """the density p(x) of a transformation case: GaussianPDF(Sigma, mu) unless a variant marker is present
    (px_is_diag -> GaussianDiagPDF; Lx -> built from Sigma= and a consistent Lambda=)"""
    factor, measure, pdf, conditional = gt()
    if "px_is_diag" in A:
        return pdf.GaussianDiagPDF(Sigma=A["Sx"], mu=A["mx"])
    if "Lx" in A:
        return pdf.GaussianPDF(Sigma=A["Sx"], mu=A["mx"], Lambda=A["Lx"])
    return pdf.GaussianPDF(Sigma=A["Sx"], mu=A["mx"])


def prior_decl(b, Rx, Dx, semi=None):
    if semi and "pxdiag" in semi:
        b.diag("Sx", Rx, Dx)
        b.const("px_is_diag", np.array([Fraction(1)], dtype=object))
    elif semi and "Sx" in semi:
        b.const("Sx", b.rat_spd(Rx, Dx))
    else:
        b.spd("Sx", Rx, Dx)
    if semi and "pxSL" in semi:
        from .c02 import _inv_of
        b.derived("Lx", (Rx, Dx, Dx), _inv_of("Sx", Rx, Dx))
    if semi and "mx" in semi:
        b.const("mx", b.rat_array((Rx, Dx)))
    else:
        b.free("mx", (Rx, Dx))


def cond_decl(b, kind, Rc, Dy, Dx, semi=None):
    """declare the conditional, optionally binding blocks to generic rationals (semi-symbolic).
    Pseudo-blocks: "viaL" (construct from the precision only), "viaSL" (from covariance and precision together), "upd"
    (update_Sigma after construction), "updw" (update_Sigma after the object has been used: set_y, condition_on_x, ...); for the prior: "pxdiag" (GaussianDiagPDF), "pxSL" (built from Sigma= and Lambda=)."""
    semi = semi or ()
    _cond_decl(b, kind, Rc, Dy, Dx, semi)
    R_ = 1 if kind == "nncontrol" else Rc
    if "viaL" in semi:
        from .c02 import _inv_of
        b.derived("c_Lonly", (R_, Dy, Dy), _inv_of("c_S", R_, Dy))
    if "viaSL" in semi:
        from .c02 import _inv_of
        b.derived("c_Lboth", (R_, Dy, Dy), _inv_of("c_S", R_, Dy))
    if "upd" in semi or "updw" in semi:
        (b.diag if "diag" in kind else b.spd)("c_S2", R_, Dy)
    if "updw" in semi:
        b.const("c_warm", np.array([Fraction(1)], dtype=object))


def _cond_decl(b, kind, Rc, Dy, Dx, semi):
    if kind in ("full", "diag"):
        if "M" in semi:
            b.const("c_M", b.rat_array((Rc, Dy, Dx), nonzero=True))
        else:
            b.free("c_M", (Rc, Dy, Dx))
        if "b" in semi:
            b.const("c_b", b.rat_array((Rc, Dy)))
        else:
            b.free("c_b", (Rc, Dy))
        if "Sy" in semi:
            if kind == "full":
                b.const("c_S", b.rat_spd(Rc, Dy))
            else:
                S = np.empty((Rc, Dy, Dy), dtype=object)
                for r in range(Rc):
                    for i in range(Dy):
                        for j in range(Dy):
                            S[r, i, j] = (Fraction(b.rng.randint(1, 6), 2) if i == j else Fraction(0))
                b.const("c_S", S)
        else:
            (b.spd if kind == "full" else b.diag)("c_S", Rc, Dy)
    elif kind == "nncontrol":
        # control_func(u) = u P + q.  (M(u), b(u)) = u P already ranges over all matrices / vectors (u != 0),
        # so q is bound to zero unless "nnq" is requested (keeps every entry a monomial)
        if "Sy" in semi:
            b.const("c_S", b.rat_spd(1, Dy))
        else:
            b.spd("c_S", 1, Dy)
        if "M" in semi:
            b.const("c_u", b.rat_array((Rc, 1), nonzero=True)); b.const("c_P", b.rat_array((1, Dy * (Dx + 1)), nonzero=True))
        else:
            b.free("c_u", (Rc, 1)); b.free("c_P", (1, Dy * (Dx + 1)))
        if "nnq" in semi:
            b.free("c_q", (Dy * (Dx + 1),))
        else:
            b.const("c_q", np.array([Fraction(0)] * (Dy * (Dx + 1)), dtype=object))
    else:
        if "Sy" in semi:
            if kind == "identity":
                b.const("c_S", b.rat_spd(Rc, Dy))
            else:
                S = np.empty((Rc, Dy, Dy), dtype=object)
                for r in range(Rc):
                    for i in range(Dy):
                        for j in range(Dy):
                            S[r, i, j] = (Fraction(b.rng.randint(1, 6), 2) if i == j else Fraction(0))
                b.const("c_S", S)
        else:
            declare_cond(b, kind, "c_", Rc, Dy, Dx)


def rotations(kind, nconcrete):
    """which blocks are bound to generic rationals in semi-symbolic configurations; rotated so that
    every block (M, Sigma_x, Sigma_y) is symbolic in at least one run"""
    if kind.startswith("identity"):
        return [("Sx",), ("Sy",)]
    if nconcrete == 2:
        return [("Sx", "Sy"), ("M", "Sx"), ("M", "Sy")]
    return [("Sx",), ("Sy",), ("M",)]


def joint_layout(Rc, Rx):
    return [(rc, rx) for rc in range(Rc) for rx in range(Rx)]


def make_case(prop, what, kind, Dx, Dy, Rc, Rx, N=1, semi=None, timeout=300, extra=None):
    """what: joint | marginal | bayes | roundtrip | sety | sety_ops"""
    semi = tuple(semi or ())
    cid = f"{prop}/{what}/{kind}/Dx{Dx}Dy{Dy}/Rc{Rc}Rx{Rx}" + (f"N{N}" if what.startswith("sety") else "") + (("/semi-" + "-".join(semi)) if semi else "") + (f"/{extra}" if extra else "")
    cfg = dict(what=what, conditional=kind, Dx=Dx, Dy=Dy, R_cond=Rc, R_x=Rx, N=N, concrete_blocks=list(semi))
    R = Rc * Rx

    def declare(b):
        cond_decl(b, kind, Rc, Dy, Dx, semi)
        if not what.startswith("sety") or what == "sety_ops":
            prior_decl(b, Rx, Dx, semi)
        if what.startswith("sety"):
            b.free("x", (1, Dx)); b.free("y", (N, Dy))
        else:
            b.free("x", (1, Dx)); b.free("y", (1, Dy))

    def fn(**A):
        import jax.numpy as jnp
        factor, measure, pdf, conditional = gt()
        c = make_cond(kind, "c_", A, Dy, Dx)
        x, y = A["x"], A["y"]
        out = {}
        if what.startswith("sety"):
            f = c.set_y(y)
            out["sety"] = f.evaluate_ln(x)                      # [N, 1]
            out["cond_at_x"] = c(x).evaluate_ln(y)              # [Rc*1, N]
            # well-formedness as behaviour: product / slice / multiplication with a measure
            out["prod"] = f.product().evaluate_ln(x)            # [1,1]
            out["slices"] = [f.slice(np.array([n])).evaluate_ln(x) for n in range(N)]
            if what == "sety_ops":
                px = make_prior(A)
                post = px.multiply(f, update_full=True)         # prior x likelihoods: [Rx*N]
                out["post_eval"] = post.evaluate_ln(x)
                out["post_logint"] = post.log_integral()
                out["px_eval"] = px.evaluate_ln(x)
            return out
        px = make_prior(A)
        if what == "joint":
            j = c.affine_joint_transformation(px)
            out["joint"] = j.evaluate_ln(jnp.concatenate([x, y], axis=1))
            out["jf"] = fields(j)
        elif what == "marginal":
            m = c.affine_marginal_transformation(px)
            out["marg"] = m.evaluate_ln(y)
            out["mf"] = fields(m)
            j = c.affine_joint_transformation(px)
            jm = j.get_marginal(np.arange(Dx, Dx + Dy))
            out["joint_marg"] = jm.evaluate_ln(y)
        elif what == "bayes":
            post = c.affine_conditional_transformation(px)
            py = c.affine_marginal_transformation(px)
            out["post"] = post.condition_on_x(y).evaluate_ln(x)   # [R*1, 1]
            out["py"] = py.evaluate_ln(y)
            out["lik_lib"] = c(x).evaluate_ln(y)                   # [Rc*1, 1]: the library's own p(y|x) at the point
            out["px_lib"] = px.evaluate_ln(x)                      # [Rx, 1]
            out["cf"] = {"M": post.M, "b": post.b, "Sigma": post.Sigma, "Lambda": post.Lambda, "ln_det_Sigma": post.ln_det_Sigma}
        elif what == "roundtrip":
            post = c.affine_conditional_transformation(px)
            py = c.affine_marginal_transformation(px)
            back_c, back_px = [], []
            for r in range(R):
                pr = post.slice(np.array([r])); pyr = py.slice(np.array([r]))
                c2 = pr.affine_conditional_transformation(pyr)
                p2 = pr.affine_marginal_transformation(pyr)
                back_c.append({"M": c2.M, "b": c2.b, "Sigma": c2.Sigma, "Lambda": c2.Lambda, "ln_det_Sigma": c2.ln_det_Sigma})
                back_px.append({"mu": p2.mu, "Sigma": p2.Sigma, "Lambda": p2.Lambda, "ln_det_Sigma": p2.ln_det_Sigma})
            out["back_c"] = back_c
            out["back_px"] = back_px
        return out

    def claims(I, O, ops):
        cp = cond_spec_params(ops, kind, "c_", I, Rc, Dy, Dx)
        x, y = I["x"], I["y"]
        cl = []
        if what.startswith("sety"):
            # likelihood factor n for conditional r(n): R=1 broadcast over N, or R=N paired
            exp = ops.zeros((N, 1))
            for n in range(N):
                rc = n if Rc > 1 else 0
                exp[n, 0] = spec_cond_logpdf(ops, cp, rc, x[0], y[n])
            cl.append(("set_y(y)(x) = N(y; Mx+b, Sigma)", O["sety"], exp))
            if Rc == 1:
                cl.append(("set_y(y)(x) = cond(x)(y)", O["sety"][:, 0], O["cond_at_x"][0, :]))
            tot = ops.zeros((1, 1)); t = ops.zero()
            for n in range(N):
                t = t + exp[n, 0]
            tot[0, 0] = t
            cl.append(("set_y(y).product()(x) = prod_n p(y_n|x)", O["prod"], tot))
            for n in range(N):
                cl.append((f"set_y(y).slice([{n}])(x) = p(y_{n}|x)", O["slices"][n], exp[n:n + 1]))
            if what == "sety_ops":
                Sx, mx = I["Sx"], I["mx"]
                e2 = ops.zeros((Rx * N, 1))
                for rx in range(Rx):
                    lp = spec.logN(ops, x[0], mx[rx], Sx[rx])
                    for n in range(N):
                        e2[rx * N + n, 0] = lp + exp[n, 0]
                cl.append(("(p_x * set_y(y))(x) = p(x) p(y_n|x)", O["post_eval"], e2))
                # evidence: ln int p(x) p(y_n|x) dx = ln N(y_n; M mu + b, Sigma + M Sx M')
                M, bb, S = cp
                e3 = ops.zeros((Rx * N,))
                for rx in range(Rx):
                    for n in range(N):
                        rc = n if Rc > 1 else 0
                        mean = spec.mv(M[rc], mx[rx]) + bb[rc]
                        cov = S[rc] + spec.mm(spec.mm(M[rc], Sx[rx]), M[rc].T)
                        e3[rx * N + n] = spec.logN(ops, y[n], mean, cov)
                cl.append(("log_integral(p_x * set_y(y)) = ln p(y_n)", O["post_logint"], e3))
            return cl
        Sx, mx = I["Sx"], I["mx"]
        M, bb, S = cp
        lay = joint_layout(Rc, Rx)
        if what == "joint":
            exp = ops.zeros((R, 1))
            for k, (rc, rx) in enumerate(lay):
                exp[k, 0] = spec_cond_logpdf(ops, cp, rc, x[0], y[0]) + spec.logN(ops, x[0], mx[rx], Sx[rx])
            cl.append(("joint([x,y]) = p(y|x) p(x)", O["joint"], exp))
            cl += invariant_claims(ops, O["jf"], "joint")
            # mean / covariance blocks
            emu = ops.zeros((R, Dx + Dy)); eS = ops.zeros((R, Dx + Dy, Dx + Dy))
            for k, (rc, rx) in enumerate(lay):
                emu[k, :Dx] = mx[rx]
                emu[k, Dx:] = spec.mv(M[rc], mx[rx]) + bb[rc]
                C = spec.mm(M[rc], Sx[rx])
                eS[k, :Dx, :Dx] = Sx[rx]
                eS[k, Dx:, :Dx] = C
                eS[k, :Dx, Dx:] = C.T
                eS[k, Dx:, Dx:] = S[rc] + spec.mm(C, M[rc].T)
            cl.append(("joint.mu", O["jf"]["mu"], emu))
            cl.append(("joint.Sigma", O["jf"]["Sigma"], eS))
        elif what == "marginal":
            exp = ops.zeros((R, 1)); emu = ops.zeros((R, Dy)); eS = ops.zeros((R, Dy, Dy))
            for k, (rc, rx) in enumerate(lay):
                emu[k] = spec.mv(M[rc], mx[rx]) + bb[rc]
                eS[k] = S[rc] + spec.mm(spec.mm(M[rc], Sx[rx]), M[rc].T)
                exp[k, 0] = spec.logN(ops, y[0], emu[k], eS[k])
            cl.append(("marginal(y) = N(y; M mu + b, Sigma_y + M Sigma_x M')", O["marg"], exp))
            cl.append(("marginal = y-marginal of the joint transformation", O["joint_marg"], exp))
            cl.append(("marginal.mu", O["mf"]["mu"], emu))
            cl.append(("marginal.Sigma", O["mf"]["Sigma"], eS))
            cl += invariant_claims(ops, O["mf"], "marginal")
        elif what == "bayes":
            lhs = ops.zeros((R,)); rhs = ops.zeros((R,))
            for k, (rc, rx) in enumerate(lay):
                lhs[k] = O["post"][k, 0] + O["py"][k, 0]
                rhs[k] = spec_cond_logpdf(ops, cp, rc, x[0], y[0]) + spec.logN(ops, x[0], mx[rx], Sx[rx])
            cl.append(("p(x|y) p(y) = p(y|x) p(x)", lhs, rhs))
            rhs_lib = ops.zeros((R,))
            for k, (rc, rx) in enumerate(lay):
                rhs_lib[k] = O["lik_lib"][rc, 0] + O["px_lib"][rx, 0]
            cl.append(("p(x|y) p(y) = cond(x)(y) * p_x(x) with the library's own evaluations on the right", lhs, rhs_lib))
            cf = O["cf"]
            cl += invariant_claims(ops, {"Lambda": cf["Lambda"], "Sigma": cf["Sigma"], "ln_det_Sigma": cf["ln_det_Sigma"]}, "posterior conditional")
        elif what == "roundtrip":
            for k, (rc, rx) in enumerate(lay):
                bc = O["back_c"][k]; bp = O["back_px"][k]
                cl.append((f"round trip [{k}]: M", bc["M"][0], M[rc]))
                cl.append((f"round trip [{k}]: b", bc["b"][0], bb[rc]))
                cl.append((f"round trip [{k}]: Sigma", bc["Sigma"][0], S[rc]))
                Si, d = spec.inv(ops, S[rc])
                cl.append((f"round trip [{k}]: Lambda", bc["Lambda"][0], Si))
                cl.append((f"round trip [{k}]: ln_det_Sigma", bc["ln_det_Sigma"][0], ops.lnabs(d)))
                cl.append((f"round trip [{k}]: p(x).mu", bp["mu"][0], mx[rx]))
                cl.append((f"round trip [{k}]: p(x).Sigma", bp["Sigma"][0], Sx[rx]))
                Sxi, dx = spec.inv(ops, Sx[rx])
                cl.append((f"round trip [{k}]: p(x).Lambda", bp["Lambda"][0], Sxi))
                cl.append((f"round trip [{k}]: p(x).ln_det_Sigma", bp["ln_det_Sigma"][0], ops.lnabs(dx)))
        return cl

    adjusted = None
    if what.startswith("sety") and Dx != Dy:
        def adj_claims(I, O, ops):
            # the property modulo the known finding: every factor is off by exactly -(Dx-Dy)/2 ln(2 pi)
            off = ops.c(Fraction(Dy - Dx, 2)) * ops.ln2pi()
            out = []
            for label, lhs, rhs in claims(I, O, ops):
                if label.startswith("set_y(y)(x) = cond"):
                    rhs = spec.add_scalar(rhs, off)
                elif label.startswith("set_y(y).product"):
                    rhs = spec.add_scalar(rhs, off * ops.c(N))
                elif label.startswith("log_integral") or label.startswith("(p_x * set_y") or label.startswith("set_y(y)(x) = N") or label.startswith("set_y(y).slice"):
                    rhs = spec.add_scalar(rhs, off)
                out.append((label, lhs, rhs))
            return out
        adjusted = ("C10-sety-normaliser-uses-Dx", adj_claims)
    return Case(cid, prop, cfg, declare, fn, claims, timeout=timeout, adjusted=adjusted)
