"""C09: affine_conditional_transformation is Bayes' rule; double transformation round-trips."""
from .condprops import make_case, rotations, CTOR_VARIANTS

PROP = "C09"
EXTRA_DRAWS = 0      # the thorough tier of this property is long already: no additional draws of the generic rationals
KINDS = ["full", "diag", "identity", "identitydiag", "nncontrol"]

BOUNDS = {
    "quick": "Bayes identity fully symbolic for (Dx,Dy) in {(1,1),(2,1),(1,2)}, (2,2) semi-symbolic (two blocks concrete, rotated); round trip fully symbolic at (1,1), one block concrete at (2,1),(1,2); (R_cond,R_x) in {(1,1),(1,2),(2,1)}",
    "thorough": "adds (2,2) with one concrete block, (3,1),(1,3),(2,3),(3,2) semi-symbolic, batches up to 3, round trip at (2,2)",
}
ASSUMPTIONS = ["round trips are taken component by component (slices): a batch on both sides is a documented refusal"]


def cases(tier, seed=0):
    out = []
    batches = [(1, 1), (1, 2), (2, 1)]
    for kind in KINDS:
        ident = kind.startswith("identity")
        dims = [(1, 1)] if ident else [(1, 1), (2, 1), (1, 2)]
        for (Dx, Dy) in dims:
            for (Rc, Rx) in batches:
                if kind == "nncontrol" and Rc > 2:
                    continue
                out.append(make_case(PROP, "bayes", kind, Dx, Dy, Rc, Rx, timeout=400))
        for (Rc, Rx) in batches:
            if kind == "nncontrol" and Rc > 2:
                continue
            for semi in rotations(kind, 2):
                out.append(make_case(PROP, "bayes", kind, 2, 2, Rc, Rx, semi=semi, timeout=600))
        for (Dx, Dy) in ([(1, 1)] if ident else [(1, 1), (2, 1), (1, 2)]):
            for (Rc, Rx) in batches:
                if kind == "nncontrol" and Rc > 2:
                    continue
                semi = () if (Dx, Dy) == (1, 1) else ("Sx",)
                out.append(make_case(PROP, "roundtrip", kind, Dx, Dy, Rc, Rx, semi=semi, timeout=600))
        if tier == "thorough":
            for (Dx, Dy) in ([(2, 2)] if ident else [(2, 2), (3, 1), (1, 3), (2, 3), (3, 2)]):
                for (Rc, Rx) in batches + ([(1, 3), (3, 1)] if Dx + Dy <= 4 else []):
                    if kind == "nncontrol" and Rc > 2:
                        continue
                    if (Dx, Dy) == (2, 2):
                        if Rc * Rx <= 2 and kind != "nncontrol":
                            for semi in rotations(kind, 1):
                                if semi != ("M",):      # measured: M concrete alone does not finish in 5 min
                                    out.append(make_case(PROP, "bayes", kind, Dx, Dy, Rc, Rx, semi=semi, timeout=3000, extra="t"))
                    else:
                        # measured (round 2): with a SYMBOLIC 3x3 noise covariance, or Dx+Dy=5 with only one block concrete pair
                        # other than (Sx,Sy), the cases need 25-60 min each; they are left out
                        rots = [("Sx", "Sy")] if (Dy == 3 or Dx + Dy == 5) else rotations(kind, 2)
                        for semi in rots:
                            out.append(make_case(PROP, "bayes", kind, Dx, Dy, Rc, Rx, semi=semi, timeout=3000))
                    if Rc * Rx <= 2:
                        out.append(make_case(PROP, "roundtrip", kind, Dx, Dy, Rc, Rx, semi=("Sx", "Sy"), timeout=1800, extra="t"))
    # constructor / history variants: built from the precision only; update_Sigma before the operation
    for kind in KINDS:
        dd = (2, 2) if kind.startswith("identity") else (2, 1)
        for var in CTOR_VARIANTS:
            if kind == "nncontrol" and var in (("viaL",), ("viaSL",)):
                continue
            sm = var + ((("Sx",) if dd == (2, 2) else ()))
            out.append(make_case(PROP, "bayes", kind, dd[0], dd[1], 1, 1, semi=sm, timeout=600))
            out.append(make_case(PROP, "bayes", kind, 1, 1, 2, 1, semi=var, timeout=600))
            out.append(make_case(PROP, "roundtrip", kind, 1, 1, 1, 1, semi=var, timeout=600))
    return out
