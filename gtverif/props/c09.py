"""C09: affine_conditional_transformation is Bayes' rule; double transformation round-trips."""
from .condprops import make_case, rotations, CTOR_VARIANTS

PROP = "C09"
EXTRA_DRAWS = 0      # the thorough tier of this property is long already: no additional draws of the generic rationals
KINDS = ["full", "diag", "identity", "identitydiag", "nncontrol"]

BOUNDS = {
    "quick": "Bayes identity fully symbolic for (Dx,Dy) in {(1,1),(2,1),(1,2)}, (2,2) semi-symbolic (two blocks concrete, rotated); round trip fully symbolic at (1,1), one block concrete at (2,1),(1,2); (R_cond,R_x) in {(1,1),(1,2),(2,1)}",
    "thorough": "adds (2,2) with one concrete block, (3,1),(1,3),(2,3),(3,2) semi-symbolic, batches up to 3, round trip at (2,2)",
}
ASSUMPTIONS = ["round trips are taken component by component (slices): a batch on both sides is a documented refusal"]



def bayes_npoints_case(kind, Dx, Dy, Rc, Rx, N=2, semi=(), timeout=900):
    """Bayes identity with SEVERAL points at once: post.condition_on_x(y) for N points returns R*N components laid out r*N+n;
    component (r, n) evaluated at x plus p_y(y_n) must equal p(y_n|x) p_r(x)"""
    import numpy as np
    from ..case import Case
    from .. import spec
    from .common import make_cond, cond_spec_params, spec_cond_logpdf
    from .condprops import cond_decl, prior_decl, make_prior, joint_layout
    cid = f"C09/bayes-npoints/{kind}/Dx{Dx}Dy{Dy}/Rc{Rc}Rx{Rx}N{N}" + ("/semi-" + "-".join(semi) if semi else "")
    cfg = dict(what="Bayes identity at several points in one call (layout r*N+n)", conditional=kind, Dx=Dx, Dy=Dy, R_cond=Rc, R_x=Rx, N=N, concrete_blocks=list(semi))
    R = Rc * Rx

    def declare(b):
        cond_decl(b, kind, Rc, Dy, Dx, semi); prior_decl(b, Rx, Dx, semi); b.free("x", (1, Dx)); b.free("y", (N, Dy))

    def fn(**A):
        c = make_cond(kind, "c_", A, Dy, Dx)
        px = make_prior(A)
        post = c.affine_conditional_transformation(px)
        py = c.affine_marginal_transformation(px)
        return {"post": post.condition_on_x(A["y"]).evaluate_ln(A["x"]), "py": py.evaluate_ln(A["y"])}    # [R*N, 1], [R, N]

    def claims(I, O, ops):
        cp = cond_spec_params(ops, kind, "c_", I, Rc, Dy, Dx)
        lhs = ops.zeros((R, N)); rhs = ops.zeros((R, N))
        for k, (rc, rx) in enumerate(joint_layout(Rc, Rx)):
            for n in range(N):
                lhs[k, n] = O["post"][k * N + n, 0] + O["py"][k, n]
                rhs[k, n] = spec_cond_logpdf(ops, cp, rc, I["x"][0], I["y"][n]) + spec.logN(ops, I["x"][0], I["mx"][rx], I["Sx"][rx])
        return [("p(x|y_n) p(y_n) = p(y_n|x) p(x) for every point n and component r (r*N+n)", lhs, rhs)]

    return Case(cid, PROP, cfg, declare, fn, claims, timeout=timeout)


def cases(tier, seed=0):
    out = []
    batches = [(1, 1), (1, 2), (2, 1)]
    for kind in KINDS:
        ident = kind.startswith("identity")
        dims = [(1, 1)] if ident else [(1, 1), (2, 1), (1, 2)]
        for (Dx, Dy) in dims:
            for (Rc, Rx) in batches:
                if kind == "nncontrol" and Rc > 2:
                    continue
                out.append(make_case(PROP, "bayes", kind, Dx, Dy, Rc, Rx, timeout=400))
        for (Rc, Rx) in batches:
            if kind == "nncontrol" and Rc > 2:
                continue
            for semi in rotations(kind, 2):
                out.append(make_case(PROP, "bayes", kind, 2, 2, Rc, Rx, semi=semi, timeout=600))
        for (Dx, Dy) in ([(1, 1)] if ident else [(1, 1), (2, 1), (1, 2)]):
            for (Rc, Rx) in batches:
                if kind == "nncontrol" and Rc > 2:
                    continue
                semi = () if (Dx, Dy) == (1, 1) else ("Sx",)
                out.append(make_case(PROP, "roundtrip", kind, Dx, Dy, Rc, Rx, semi=semi, timeout=600))
        if tier == "thorough":
            for (Dx, Dy) in ([(2, 2)] if ident else [(2, 2), (3, 1), (1, 3), (2, 3), (3, 2)]):
                for (Rc, Rx) in batches + ([(1, 3), (3, 1)] if Dx + Dy <= 4 else []):
                    if kind == "nncontrol" and Rc > 2:
                        continue
                    if (Dx, Dy) == (2, 2):
                        if Rc * Rx <= 2 and kind != "nncontrol":
                            for semi in rotations(kind, 1):
                                if semi != ("M",):      # measured: M concrete alone does not finish in 5 min
                                    out.append(make_case(PROP, "bayes", kind, Dx, Dy, Rc, Rx, semi=semi, timeout=3000, extra="t"))
                    else:
                        # measured (round 2): with a SYMBOLIC 3x3 noise covariance, or Dx+Dy=5 with only one block concrete pair
                        # other than (Sx,Sy), the cases need 25-60 min each; they are left out
                        rots = [("Sx", "Sy")] if (Dy == 3 or Dx + Dy == 5) else rotations(kind, 2)
                        for semi in rots:
                            out.append(make_case(PROP, "bayes", kind, Dx, Dy, Rc, Rx, semi=semi, timeout=3000))
                    if Rc * Rx <= 2:
                        out.append(make_case(PROP, "roundtrip", kind, Dx, Dy, Rc, Rx, semi=("Sx", "Sy"), timeout=1800, extra="t"))
    for kind in KINDS:
        d = (1, 1) if kind.startswith("identity") else (1, 2)
        out.append(bayes_npoints_case(kind, d[0], d[1], 1, 2))
        if kind != "nncontrol":
            out.append(bayes_npoints_case(kind, d[0], d[1], 2, 1))
    # constructor / history variants: built from the precision only; update_Sigma before the operation
    for kind in KINDS:
        dd = (2, 2) if kind.startswith("identity") else (2, 1)
        for var in CTOR_VARIANTS:
            if kind == "nncontrol" and var in (("viaL",), ("viaSL",)):
                continue
            sm = var + ((("Sx",) if dd == (2, 2) else ()))
            out.append(make_case(PROP, "bayes", kind, dd[0], dd[1], 1, 1, semi=sm, timeout=600))
            out.append(make_case(PROP, "bayes", kind, 1, 1, 2, 1, semi=var, timeout=600))
            out.append(make_case(PROP, "roundtrip", kind, 1, 1, 1, 1, semi=var, timeout=600))
    return out
