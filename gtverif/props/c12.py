"""C12: batches are independent components; slicing commutes with every operation.

For every scenario (an operation on batch objects) and every index array of a finite enumerated set
(repeats, negatives, permutations), both sides are traces of the real code:
    op(operands).slice(idx')   versus   op(operands.slice(idx))
with idx -> idx' the documented layout map.  The right-hand side never sees the components that are
not addressed, so equality for all parameter values also gives non-interference.  Index arrays are
enumerated (they are static configuration); the parameter values are decided by the solver."""
from fractions import Fraction
import itertools
import numpy as np

from ..case import Case
from .. import spec
from .common import gt, fields, declare_factor, make_factor, make_cond, CondWrap
from .condprops import cond_decl, prior_decl

PROP = "C12"

BOUNDS = {
    "quick": "R in {2,3} (D=2) and R in {5,6} (D=1, unary operations); index arrays of length 1-2 from a fixed set with repeats, negatives and permutations (6 per scenario); scenarios: evaluate / slice-of-slice for every factor, measure, density and conditional class, integrals with per-component coefficients, multiply (i*R2+j) and hadamard for every factor kind, density operations (entropy, KL, marginal, conditioning, linear sum), cond(x) for N points (r*N+n), set_y paired, the three transformations with the batch on either side, information quantities, update(idx, d); D=2, Dx+Dy<=3",
    "thorough": "all index arrays of length <=2 over range(-R,R) for R=2,3 plus length-3 samples; (2,2) transformations semi-symbolic",
}
ASSUMPTIONS = ["index arrays are enumerated, not solver variables (gather with a symbolic index has no counterpart in the normal form): the claim is for the listed arrays and every parameter value"]

FNAMES = ("Lambda", "nu", "ln_beta", "Sigma", "ln_det_Sigma", "ln_det_Lambda", "mu", "lnZ", "M", "b")


def idx_set(R, tier):
    if tier == "quick":
        base = [[R - 1], [-1], [0, 0], [R - 1, 0], [-1, -R], [1, -1]]
    else:
        base = [[i] for i in range(-R, R)] + [list(p) for p in itertools.product(range(-R, R), repeat=2)]
        base += [[0, R - 1, 0], [-1, 1, -R], [R - 1, R - 2, R - 1]]
    seen, out = set(), []
    for b in base:
        if tuple(b) not in seen:
            seen.add(tuple(b)); out.append(b)
    return out


def norm(idx, R):
    return [i % R for i in idx]


def _obj(o):
    return fields(o, FNAMES)


def cmp_tree(cl, tag, a, b):
    if isinstance(a, dict):
        for k in a:
            if k in b:
                cmp_tree(cl, f"{tag}.{k}", a[k], b[k])
            else:
                cl.append(("SHAPE", f"{tag}.{k} missing on one side", (1,), (0,)))
    elif isinstance(a, (list, tuple)):
        for i, (x, y) in enumerate(zip(a, b)):
            cmp_tree(cl, f"{tag}[{i}]", x, y)
    else:
        cl.append(("SHAPE", tag, np.shape(a), np.shape(b)))
        if np.shape(a) == np.shape(b):
            cl.append((f"{tag}: op(obj).slice(idx') = op(obj.slice(idx))", a, b))


def scenario_case(name, declare, run, idxs, cfg, timeout=600):
    """run(A, idx) -> (lhs_tree, rhs_tree) for one index array; all index arrays in one trace"""
    cid = f"C12/{name}"

    def fn(**A):
        return [run(A, idx) for idx in idxs]

    def claims(I, O, ops):
        cl = []
        for idx, (l, r) in zip(idxs, O):
            cmp_tree(cl, f"idx={idx}", l, r)
        return cl

    cfg = dict(cfg, index_arrays=idxs)
    return Case(cid, PROP, cfg, declare, fn, claims, timeout=timeout)


def cases(tier, seed=0):
    out = []
    D = 2

    def J(idx):
        import jax.numpy as jnp
        return jnp.array(idx)

    def jnp_ones(n):
        import jax.numpy as jnp
        return jnp.ones((n,))

    # ------------------------------------------------------------------ factors / measures / densities: unary
    unary_cfgs = [(kind, R, 2) for kind in ("conjugate", "onerank", "linear", "constant", "measure", "diagmeasure", "pdf", "diagpdf") for R in (2, 3)]
    # larger batches (the quantifier goes to R=6): one-dimensional components keep the expressions small
    unary_cfgs += [(kind, R, 1) for kind in ("onerank", "measure", "pdf") for R in (5, 6)]
    for (kind, R, Dn) in unary_cfgs:
        if True:
            idxs = idx_set(R, tier) if Dn == 2 else [[R - 1], [-1, 0], [3, 3], [-R, R - 2], [2, 4]]

            def declare(b, kind=kind, R=R, Dn=Dn):
                declare_factor(b, kind, "f_", R, Dn); b.free("x", (2, Dn))

            def run(A, idx, kind=kind, R=R, Dn=Dn):
                f = make_factor(kind, "f_", A, Dn)
                x = A["x"]
                fs = f.slice(J(idx))
                lhs = {"eval": f.evaluate_ln(x)[J(idx)], "slice_fields": {k: v[J(idx)] for k, v in _obj(f).items() if k in ("Lambda", "nu", "ln_beta")},
                       "slice2": _obj(f.slice(J(norm(idx, R))).slice(J(list(range(len(idx)))[::-1])))}
                rhs = {"eval": fs.evaluate_ln(x), "slice_fields": {k: v for k, v in _obj(fs).items() if k in ("Lambda", "nu", "ln_beta")},
                       "slice2": _obj(f.slice(J([norm(idx, R)[k] for k in range(len(idx))][::-1])))}
                if kind in ("measure", "diagmeasure", "pdf", "diagpdf"):
                    lhs.update({"logint": f.log_integral()[J(idx)], "Ex": f.integrate("x")[J(idx)], "Exx": f.integrate("xx'")[J(idx)],
                                "lin": f.integrate("(Ax+a)", A_mat=f.Lambda, a_vec=f.nu)[J(idx)],
                                "quad": f.integrate("(Ax+a)'(Bx+b)", A_mat=f.Lambda, b_vec=f.nu)[J(idx)]})
                    rhs.update({"logint": fs.log_integral(), "Ex": fs.integrate("x"), "Exx": fs.integrate("xx'"),
                                "lin": fs.integrate("(Ax+a)", A_mat=fs.Lambda, a_vec=fs.nu),
                                "quad": fs.integrate("(Ax+a)'(Bx+b)", A_mat=fs.Lambda, b_vec=fs.nu)})
                if kind in ("measure", "diagmeasure", "pdf", "diagpdf"):
                    # expected log-factor with a batch of factors paired with the measure's components (and one shared factor)
                    from gaussian_toolbox import factor as _fm
                    def lf(o, sl=None):
                        take = (lambda a: a) if sl is None else (lambda a: a[J(sl)])
                        g = _fm.ConjugateFactor(Lambda=take(f.Lambda) + 1.0, nu=take(f.nu) * 2.0 + 1.0, ln_beta=take(f.ln_beta) - 1.0)
                        g1 = _fm.OneRankFactor(v=take(f.nu), g=jnp_ones(take(f.nu).shape[0]) * 0.5, nu=take(f.nu), ln_beta=take(f.ln_beta))
                        g2 = _fm.LinearFactor(nu=take(f.nu) - 1.0, ln_beta=take(f.ln_beta))
                        gs = _fm.ConjugateFactor(Lambda=f.Lambda[:1] * 2.0, nu=f.nu[-1:], ln_beta=f.ln_beta[:1])
                        return {"logfac_paired": o.integrate("log u(x)", factor=g), "logfac_onerank": o.integrate("log u(x)", factor=g1),
                                "logfac_linear": o.integrate("log u(x)", factor=g2), "logfac_shared": o.integrate("log u(x)", factor=gs)}
                    ll, lr = lf(f), lf(fs, idx)
                    lhs.update({k: v[J(idx)] for k, v in ll.items()}); rhs.update(lr)
                if kind in ("measure", "pdf") and R == 2 and Dn == 2:
                    def hi(o):
                        # third / fourth order integrals with PER-COMPONENT coefficients taken from the object's own fields
                        return {"cub_in": o.integrate("(Ax+a)(Bx+b)'(Cx+c)", A_mat=o.Lambda, a_vec=o.nu, B_mat=o.Lambda, C_mat=o.Lambda, c_vec=o.nu),
                                "cub_out": o.integrate("(Ax+a)'(Bx+b)(Cx+c)'", A_mat=o.Lambda, B_mat=o.Lambda, b_vec=o.nu, C_mat=o.Lambda),
                                "quart_in": o.integrate("(Ax+a)'(Bx+b)(Cx+c)'(Dx+d)", A_mat=o.Lambda, B_mat=o.Lambda, b_vec=o.nu, C_mat=o.Lambda, D_mat=o.Lambda, d_vec=o.nu),
                                "quart_out": o.integrate("(Ax+a)(Bx+b)'(Cx+c)(Dx+d)'", A_mat=o.Lambda, a_vec=o.nu, B_mat=o.Lambda, C_mat=o.Lambda, D_mat=o.Lambda),
                                "xbxx": o.integrate("xb'xx'", b_vec=o.nu),
                                "xAxx": o.integrate("x(A'x + a)x'", A_mat=o.nu[:, None], a_vec=o.ln_beta[:, None]),
                                "quad_out": o.integrate("(Ax+a)(Bx+b)'", A_mat=o.Lambda, a_vec=o.nu, B_mat=o.Lambda)}
                    hl, hr = hi(f), hi(fs)
                    lhs.update({k: v[J(idx)] for k, v in hl.items()}); rhs.update(hr)
                if kind in ("pdf", "diagpdf"):
                    lhs.update({"H": f.entropy()[J(idx)], "marg": {k: v[J(idx)] for k, v in _obj(f.get_marginal(J([Dn - 1]))).items()},
                                "kl": f.kl_divergence(f.slice(J([0])))[J(idx)]})
                    rhs.update({"H": fs.entropy(), "marg": _obj(fs.get_marginal(J([Dn - 1]))), "kl": fs.kl_divergence(f.slice(J([0])))})
                return lhs, rhs
            out.append(scenario_case(f"unary/{kind}/R{R}" + ("" if Dn == 2 else f"D{Dn}"), declare, run, idxs, dict(op="evaluate/slice/integrals", kind=kind, R=R, D=Dn)))

    # ------------------------------------------------------------------ products
    def mk_u(A, ukind):
        """measure operand: fresh (no covariance cached), after a read-only query (covariance cached), or a density"""
        if ukind == "pdf":
            return make_factor("pdf", "u_", A, D)
        u = make_factor("measure", "u_", A, D)
        if ukind == "queried":
            u.integrate("x")
        return u

    for fk in ("conjugate", "onerank", "linear", "constant", "pdf"):
      for ukind in ("cold", "queried", "pdf"):
        for uf in (False, True):
            if ukind != "cold" and not uf:
                continue
            R1, R2 = 2, 3
            idx1s = idx_set(R1, "quick")[:4] if tier == "quick" else idx_set(R1, "quick")
            idx2s = idx_set(R2, "quick")[2:6] if tier == "quick" else idx_set(R2, "quick")
            pairs = list(zip(idx1s, idx2s))
            utag = "" if ukind == "cold" else f"/u-{ukind}"

            def declare(b, fk=fk, ukind=ukind):
                declare_factor(b, "pdf" if ukind == "pdf" else "measure", "u_", R1, D); declare_factor(b, fk, "f_", R2, D); b.free("x", (1, D))

            def run(A, pair, fk=fk, uf=uf, ukind=ukind):
                i1, i2 = pair
                u = mk_u(A, ukind); f = make_factor(fk, "f_", A, D)
                r = u.multiply(f, update_full=uf)
                idxp = [a * R2 + c for a in norm(i1, R1) for c in norm(i2, R2)]
                rs = mk_u(A, ukind).slice(J(i1)).multiply(f.slice(J(i2)), update_full=uf)
                x = A["x"]
                return ({"obj": _obj(r.slice(J(idxp))), "eval": r.evaluate_ln(x)[J(idxp)], "logint": r.log_integral()[J(idxp)], "Ex": r.integrate("x")[J(idxp)]},
                        {"obj": _obj(rs), "eval": rs.evaluate_ln(x), "logint": rs.log_integral(), "Ex": rs.integrate("x")})
            out.append(scenario_case(f"multiply/{fk}/uf{int(uf)}{utag}", declare, run, pairs, dict(op="multiply", factor=fk, update_full=uf, operand=ukind, layout="i*R2+j", R1=R1, R2=R2)))
            if ukind == "pdf":
                continue
            for (Ra, Rb) in ((3, 3), (3, 1), (1, 3)):
                idxs = idx_set(3, "quick")[:5]

                def declare(b, fk=fk, Ra=Ra, Rb=Rb):
                    declare_factor(b, "measure", "u_", Ra, D); declare_factor(b, fk, "f_", Rb, D); b.free("x", (1, D))

                def run(A, idx, fk=fk, uf=uf, Ra=Ra, Rb=Rb, ukind=ukind):
                    u = mk_u(A, ukind); f = make_factor(fk, "f_", A, D)
                    r = u.hadamard(f, update_full=uf)
                    u2 = mk_u(A, ukind)
                    rs = (u2.slice(J(idx)) if Ra > 1 else u2).hadamard(f.slice(J(idx)) if Rb > 1 else f, update_full=uf)
                    x = A["x"]
                    return ({"obj": _obj(r.slice(J(idx))), "eval": r.evaluate_ln(x)[J(idx)], "logint": r.log_integral()[J(idx)]},
                            {"obj": _obj(rs), "eval": rs.evaluate_ln(x), "logint": rs.log_integral()})
                out.append(scenario_case(f"hadamard/{fk}/uf{int(uf)}/R{Ra}x{Rb}{utag}", declare, run, idxs, dict(op="hadamard", factor=fk, update_full=uf, operand=ukind, R1=Ra, R2=Rb)))

    # ------------------------------------------------------------------ density operations producing conditionals / images
    R = 3
    idxs = idx_set(R, tier)

    def declare(b):
        b.spd("S", R, D); b.free("mu", (R, D)); b.free("W", (R, 1, D)); b.free("xb", (2, 1))

    def run(A, idx):
        factor, measure, pdf, conditional = gt()
        p = pdf.GaussianPDF(Sigma=A["S"], mu=A["mu"]); ps = p.slice(J(idx))
        c = p.condition_on(J([1])); cs = ps.condition_on(J([1]))
        N = 2
        idxN = [r * N + n for r in norm(idx, R) for n in range(N)]
        return ({"cond": _obj(c.slice(J(idx))), "cond_at_x": _obj(c(A["xb"]).slice(J(idxN))),
                 "linsum": _obj(p.get_density_of_linear_sum(A["W"]).slice(J(idx)))},
                {"cond": _obj(cs), "cond_at_x": _obj(cs(A["xb"])), "linsum": _obj(ps.get_density_of_linear_sum(A["W"][J(idx)]))})
    out.append(scenario_case("pdf-ops/R3", declare, run, idxs, dict(op="condition_on, cond(x) [r*N+n], get_density_of_linear_sum", R=R, D=D)))

    # update(idx, d)
    def declare(b):
        b.spd("S", 3, D); b.free("mu", (3, D)); b.spd("S2", 2, D); b.free("mu2", (2, D))

    upd = [[0, 2], [-1, 1], [2, 0]] if tier == "quick" else [[0, 2], [-1, 1], [2, 0], [1, 2], [-3, -1], [0, 1]]

    def run(A, idx):
        factor, measure, pdf, conditional = gt()
        p = pdf.GaussianPDF(Sigma=A["S"], mu=A["mu"]); d = pdf.GaussianPDF(Sigma=A["S2"], mu=A["mu2"])
        old = pdf.GaussianPDF(Sigma=A["S"], mu=A["mu"])
        p.update(J(idx), d)
        n = norm(idx, 3)
        lhs, rhs = [], []
        upd_int = {"1": p.integrate(), "x": p.integrate("x"), "xx": p.integrate("xx'"), "logint": p.log_integral(), "H": p.entropy()}
        for k in range(3):
            lhs.append({"obj": _obj(p.slice(J([k]))), "ints": {kk: v[k:k + 1] for kk, v in upd_int.items()}})
            src = d.slice(J([n.index(k)])) if k in n else old.slice(J([k]))
            rhs.append({"obj": _obj(src), "ints": {"1": src.integrate(), "x": src.integrate("x"), "xx": src.integrate("xx'"), "logint": src.log_integral(), "H": src.entropy()}})
        return lhs, rhs
    out.append(scenario_case("update/pdf", declare, run, upd, dict(op="update(idx, d) replaces exactly the addressed components", R=3, D=D)))

    # ------------------------------------------------------------------ conditionals
    for kind in ("full", "diag", "identity", "identitydiag"):
        ident = kind.startswith("identity")
        for (Dx, Dy) in ([(2, 2), (1, 1)] if ident else [(2, 1), (1, 2), (1, 1)]):
            Rc = 3 if Dx + Dy <= 3 and tier != "quick" else 2
            idxs = idx_set(Rc, "quick") if tier == "quick" else idx_set(Rc, tier)[:20]
            if (Dx, Dy) == (1, 1):      # a larger batch in dimension one
                Rc = 5; idxs = [[4], [-1, 0], [3, 3], [-5, 2], [1, 4]]
            semi = ("Sx",) if (Dx, Dy) == (2, 2) else ()

            def declare(b, kind=kind, Dx=Dx, Dy=Dy, Rc=Rc, semi=semi):
                cond_decl(b, kind, Rc, Dy, Dx, semi); prior_decl(b, 1, Dx, semi)
                b.free("x", (2, Dx)); b.free("y", (Rc, Dy))

            def run(A, idx, kind=kind, Dx=Dx, Dy=Dy, Rc=Rc):
                factor, measure, pdf, conditional = gt()
                c = make_cond(kind, "c_", A, Dy, Dx)
                cs = CondWrap(c.obj.slice(J(idx)), {})
                px = pdf.GaussianPDF(Sigma=A["Sx"], mu=A["mx"])
                N = 2
                idxN = [r * N + n for r in norm(idx, Rc) for n in range(N)]
                lhs = {"cond_at_x": _obj(c(A["x"]).slice(J(idxN))), "set_y": _obj(c.set_y(A["y"]).slice(J(idx))),
                       "joint": _obj(c.affine_joint_transformation(px).slice(J(idx))),
                       "marginal": _obj(c.affine_marginal_transformation(px).slice(J(idx))),
                       "conditional": _obj(c.affine_conditional_transformation(px).slice(J(idx))),
                       "Hc": c.conditional_entropy(px)[J(idx)], "MI": c.mutual_information(px)[J(idx)]}
                rhs = {"cond_at_x": _obj(cs(A["x"])), "set_y": _obj(cs.set_y(A["y"][J(idx)])),
                       "joint": _obj(cs.affine_joint_transformation(px)), "marginal": _obj(cs.affine_marginal_transformation(px)),
                       "conditional": _obj(cs.affine_conditional_transformation(px)),
                       "Hc": cs.conditional_entropy(px), "MI": cs.mutual_information(px)}
                return lhs, rhs
            out.append(scenario_case(f"cond-batch/{kind}/Dx{Dx}Dy{Dy}/Rc{Rc}", declare, run, idxs,
                                     dict(op="cond(x) [r*N+n], set_y paired, joint/marginal/conditional transformation, entropies; batch of conditionals", conditional=kind, Dx=Dx, Dy=Dy, R_cond=Rc, R_x=1), timeout=900))
    for kind in ("full", "diag", "identity", "identitydiag", "nncontrol"):
        ident = kind.startswith("identity")
        for (Dx, Dy) in ([(2, 2), (1, 1)] if ident else [(2, 1), (1, 2), (1, 1)]):
            Rx = 3 if tier != "quick" else 2
            idxs = idx_set(Rx, "quick") if tier == "quick" else idx_set(Rx, tier)[:20]
            if (Dx, Dy) == (1, 1):
                Rx = 6; idxs = [[5], [-1, 0], [3, 3], [-6, 2], [1, 4]]
            semi = ("Sy",) if (Dx, Dy) == (2, 2) else ()

            def declare(b, kind=kind, Dx=Dx, Dy=Dy, Rx=Rx, semi=semi):
                cond_decl(b, kind, 1, Dy, Dx, semi); prior_decl(b, Rx, Dx, semi)

            def run(A, idx, kind=kind, Dx=Dx, Dy=Dy):
                factor, measure, pdf, conditional = gt()
                c = make_cond(kind, "c_", A, Dy, Dx)
                px = pdf.GaussianPDF(Sigma=A["Sx"], mu=A["mx"]); pxs = px.slice(J(idx))
                lhs = {"joint": _obj(c.affine_joint_transformation(px).slice(J(idx))),
                       "marginal": _obj(c.affine_marginal_transformation(px).slice(J(idx))),
                       "conditional": _obj(c.affine_conditional_transformation(px).slice(J(idx))),
                       "Hc": c.conditional_entropy(px)[J(idx)]}
                rhs = {"joint": _obj(c.affine_joint_transformation(pxs)), "marginal": _obj(c.affine_marginal_transformation(pxs)),
                       "conditional": _obj(c.affine_conditional_transformation(pxs)), "Hc": c.conditional_entropy(pxs)}
                return lhs, rhs
            out.append(scenario_case(f"prior-batch/{kind}/Dx{Dx}Dy{Dy}/Rx{Rx}", declare, run, idxs,
                                     dict(op="joint/marginal/conditional transformation, conditional entropy; batch of priors", conditional=kind, Dx=Dx, Dy=Dy, R_cond=1, R_x=Rx), timeout=900))
    # ------------------------------------------------------------------ approximate conditionals: batch of priors
    from .c14 import declare_feature, make_feature
    from .c16 import make_het
    for model in ("lrbf", "lsem", "exp", "cosh"):
        Rx = 2
        idxs = idx_set(Rx, "quick")

        def declare(b, model=model):
            if model in ("lrbf", "lsem"):
                declare_feature(b, model, 1, 1, 1)
            else:
                b.free("M", (1, 1, 1)); b.free("bv", (1, 1)); b.free("A", (1, 1, 1)); b.free("W", (1, 2))
            b.spd("Sx", Rx, 1); b.free("mx", (Rx, 1))

        def run(A, idx, model=model):
            factor, measure, pdf, conditional = gt()
            c = make_feature(model, A) if model in ("lrbf", "lsem") else make_het(model, A)
            px = pdf.GaussianPDF(Sigma=A["Sx"], mu=A["mx"]); pxs = px.slice(J(idx))
            m, S = c.get_expected_moments(px); ms, Ss = c.get_expected_moments(pxs)
            return ({"mu_y": m[J(idx)], "Sigma_y": S[J(idx)], "Eyx": c.get_expected_cross_terms(px)[J(idx)]},
                    {"mu_y": ms, "Sigma_y": Ss, "Eyx": c.get_expected_cross_terms(pxs)})
        out.append(scenario_case(f"approx-prior-batch/{model}/Rx{Rx}", declare, run, idxs,
                                 dict(op="matched moments of an approximate conditional; batch of priors", model=model, R_x=Rx), timeout=900))

    # ------------------------------------------------------------------ truncated measures (batch of measures and limits)
    def declare(b):
        b.pos("s", (2,)); b.free("nu", (2, 1)); b.free("lb", (2,)); b.free("a", (2, 1)); b.pos("gap", (2, 1))
        b.derived("bu", (2, 1), lambda I, ops: I["a"] + I["gap"])
        b.phi_slots(5)

    def run(A, idx):
        from ..phi import patched_norm
        from gaussian_toolbox.experimental import truncated_measure as tm
        factor, measure, pdf, conditional = gt()
        with patched_norm():
            lam = (1.0 / A["s"] ** 2)[:, None, None]
            u = measure.GaussianMeasure(Lambda=lam, nu=A["nu"], ln_beta=A["lb"])
            t = tm.TruncatedGaussianMeasure(measure=u, lower_limit=A["a"], upper_limit=A["bu"])
            ts = tm.TruncatedGaussianMeasure(measure=u.slice(J(idx)), lower_limit=A["a"][J(idx)], upper_limit=A["bu"][J(idx)])
            return ({"F0": t.integrate("1")[J(idx)], "F1": t.integrate("x")[J(idx)], "F2": t.integrate("x**2")[J(idx)], "F3": t.integrate("x**k", k=3)[J(idx)]},
                    {"F0": ts.integrate("1"), "F1": ts.integrate("x"), "F2": ts.integrate("x**2"), "F3": ts.integrate("x**k", k=3)})
    out.append(scenario_case("truncated/R2", declare, run, idx_set(2, "quick"), dict(op="truncated integrals; batch of measures with individual limits", R=2), timeout=900))

    # limits that are infinite on DIFFERENT sides for different components: [a0, inf) and (-inf, b1]
    def declare2(b):
        b.pos("s", (2,)); b.free("nu", (2, 1)); b.free("lb", (2,)); b.free("a", (2, 1)); b.free("bu", (2, 1))
        b.phi_slots(5)

    def run2(A, idx):
        import jax.numpy as jnp
        from ..phi import patched_norm
        from gaussian_toolbox.experimental import truncated_measure as tm
        factor, measure, pdf, conditional = gt()
        with patched_norm():
            lam = (1.0 / A["s"] ** 2)[:, None, None]
            u = measure.GaussianMeasure(Lambda=lam, nu=A["nu"], ln_beta=A["lb"])
            lo = jnp.concatenate([A["a"][:1], jnp.full((1, 1), -jnp.inf)], axis=0)
            hi = jnp.concatenate([jnp.full((1, 1), jnp.inf), A["bu"][1:]], axis=0)
            t = tm.TruncatedGaussianMeasure(measure=u, lower_limit=lo, upper_limit=hi)
            ts = tm.TruncatedGaussianMeasure(measure=u.slice(J(idx)), lower_limit=lo[J(idx)], upper_limit=hi[J(idx)])
            ks = (0, 2, 3, 4)
            return ({"F0": t.integrate("1")[J(idx)], "F1": t.integrate("x")[J(idx)], "F2": t.integrate("x**2")[J(idx)], **{f"Fk{k}": t.integrate("x**k", k=k)[J(idx)] for k in ks}},
                    {"F0": ts.integrate("1"), "F1": ts.integrate("x"), "F2": ts.integrate("x**2"), **{f"Fk{k}": ts.integrate("x**k", k=k) for k in ks}})
    out.append(scenario_case("truncated-mixed-limits/R2", declare2, run2, [[0], [1], [-1, 0], [1, 1]], dict(op="truncated integrals; components with limits infinite on different sides", R=2), timeout=900))
    return out
