"""C02: reported total mass equals the true integral; everything presented as a density integrates
to one (decided from the returned Lambda, nu, ln_beta via the Gaussian mass axiom, with adjugate
inverses -- so a density whose precision disagrees with its covariance is caught)."""
from fractions import Fraction
import numpy as np

from ..case import Case
from .. import spec
from .common import (gt, fields, invariant_claims, density_is_normalised_claims, declare_factor, make_factor,
                     factor_spec_params, make_cond, cond_spec_params)
from .condprops import cond_decl, prior_decl

PROP = "C02"

BOUNDS = {
    "quick": "measures D<=2 (3 for the diagonal class), R<=2; densities from every constructor argument combination (redundant Lambda / ln_det supplied consistently), get_density, normalize, slice, get_marginal, cond(x) of every conditional kind, joint / marginal / conditional transformations at (Dx,Dy) in {(1,1),(2,1),(1,2)}, linear sums; also after a product / slice / read-only query",
    "thorough": "adds D=3 measures, (2,2) transformations semi-symbolic, R=3",
}
ASSUMPTIONS = ["Gaussian mass axiom: int beta exp(-x'Lx/2 + nu'x) dx = beta (2pi)^(D/2) det(L)^(-1/2) exp(nu' L^-1 nu / 2) for positive definite L (integrals over R^D are not derivable by SMT; this is the one analytic fact assumed)",
               "non-negativity is structural (evaluate = exp(evaluate_ln)) and is stated, not solved"]


def mass_case(kind, D, R, history, timeout=300):
    cid = f"C02/mass/{kind}/D{D}R{R}/{history}"
    cfg = dict(what="mass", measure=kind, D=D, R=R, history=history)

    def declare(b):
        declare_factor(b, kind, "u_", R, D)
        if history == "after_multiply":
            declare_factor(b, "conjugate", "f_", 1, D)
        if history == "after_onerank":
            declare_factor(b, "onerank", "f_", 1, D)

    def fn(**A):
        u = make_factor(kind, "u_", A, D)
        if history == "after_multiply":
            u = u.multiply(make_factor("conjugate", "f_", A, D), update_full=False)
        elif history == "after_onerank":
            u.integrate()
            u = u.multiply(make_factor("onerank", "f_", A, D), update_full=True)
        elif history == "after_slice":
            u.log_integral()
            u = u.slice(np.array([R - 1, 0]))
        elif history == "after_query":
            u.integrate("x")
        out = {"light_first": u.log_integral_light()} if history == "light_first" else {}
        out.update({"integral": u.integral(), "log_integral": u.log_integral(), "integral_light": u.integral_light(),
                    "log_integral_light": u.log_integral_light(), "integrate1": u.integrate("1"), "integrate_default": u.integrate()})
        return out

    def claims(I, O, ops):
        L, nu, lb = factor_spec_params(ops, kind, "u_", I, R, D)
        if history in ("after_multiply", "after_onerank"):
            Lf, nuf, lbf = factor_spec_params(ops, "conjugate" if history == "after_multiply" else "onerank", "f_", I, 1, D)
            L = L + Lf; nu = nu + nuf; lb = lb + lbf
        idx = [R - 1, 0] if history == "after_slice" else list(range(R))
        e = ops.zeros((len(idx),))
        for k, r in enumerate(idx):
            e[k] = spec.ln_mass(ops, L[r], nu[r], lb[r])
        cl = [("log_integral = ln of the true integral", O["log_integral"], e),
              ("log_integral_light = ln of the true integral", O["log_integral_light"], e),
              ("integral = true integral", O["integral"], ops.exp(e)),
              ("integral_light = true integral", O["integral_light"], ops.exp(e)),
              ("integrate('1') = true integral", O["integrate1"], ops.exp(e)),
              ("integrate() = true integral", O["integrate_default"], ops.exp(e))]
        if "light_first" in O:
            cl.append(("log_integral_light on a cold object", O["light_first"], e))
        return cl

    return Case(cid, PROP, cfg, declare, fn, claims, timeout=timeout)


def _inv_of(name, R, D):
    def f(I, ops):
        out = ops.zeros((R, D, D))
        for r in range(R):
            out[r], _ = spec.inv(ops, I[name][r])
        return out
    return f


def _lndet_of(name, R):
    def f(I, ops):
        out = ops.zeros((R,))
        for r in range(R):
            out[r] = ops.lnabs(spec.det(ops, I[name][r]))
        return out
    return f


def density_case(producer, D, R, extra=None, timeout=400, semi=()):
    """producer: name of the API that returns the density"""
    cid = f"C02/density/{producer}/D{D}R{R}" + (f"/{extra}" if extra else "") + ("/semi-" + "-".join(semi) if semi else "")
    cfg = dict(what="density integrates to one", producer=producer, D=D, R=R, variant=extra, concrete_blocks=list(semi))
    diag = "diag" in producer
    cond_kinds = {"cond_full": "full", "cond_diag": "diag", "cond_identity": "identity", "cond_identitydiag": "identitydiag", "cond_nncontrol": "nncontrol"}
    trans = producer.startswith("joint_") or producer.startswith("marginal_") or producer.startswith("conditional_")
    Dx, Dy = (extra if isinstance(extra, tuple) else (D, D))

    def declare(b):
        if producer in cond_kinds or trans:
            kind = cond_kinds.get(producer) or producer.split("_", 1)[1]
            cond_decl(b, kind, R if not trans else 1, Dy, Dx, semi)
            if trans:
                prior_decl(b, R, Dx, semi)
                if producer.startswith("conditional_"):
                    b.free("y", (1, Dy))
            else:
                b.free("xc", (2, Dx))
            b.free("x", (1, (Dx + Dy) if producer.startswith("joint_") else (Dx if producer.startswith("conditional_") else Dy)))
            return
        (b.diag if diag else b.spd)("S", R, D)
        b.free("mu", (R, D))
        if producer.endswith("+Lambda") or producer.endswith("+Lambda+lndet"):
            b.derived("Lam", (R, D, D), _inv_of("S", R, D))
        if producer.endswith("+Lambda+lndet"):
            b.derived("ld", (R,), _lndet_of("S", R))
        base = producer.replace("diag_", "")
        if base in ("get_density", "normalize", "get_density_of_product"):
            b.free("nu", (R, D)); b.free("lb", (R,))
        if producer == "get_density_of_product":
            declare_factor(b, "onerank", "f_", 1, D)
        b.free("x", (1, D if base != "get_marginal" else 1))

    def fn(**A):
        import jax.numpy as jnp
        factor, measure, pdf, conditional = gt()
        x = A["x"]
        out = {}
        if producer in cond_kinds:
            c = make_cond(cond_kinds[producer], "c_", A, Dy, Dx)
            p = c(A["xc"])
        elif trans:
            kind = producer.split("_", 1)[1]
            c = make_cond(kind, "c_", A, Dy, Dx)
            px = pdf.GaussianPDF(Sigma=A["Sx"], mu=A["mx"])
            if producer.startswith("joint_"):
                p = c.affine_joint_transformation(px)
            elif producer.startswith("marginal_"):
                p = c.affine_marginal_transformation(px)
            else:
                p = c.affine_conditional_transformation(px).condition_on_x(A["y"])
        else:
            cls = pdf.GaussianDiagPDF if diag else pdf.GaussianPDF
            base = producer.replace("diag_", "")
            if base == "ctor":
                p = cls(Sigma=A["S"], mu=A["mu"])
            elif base == "ctor+Lambda":
                p = cls(Sigma=A["S"], mu=A["mu"], Lambda=A["Lam"])
            elif base == "ctor+Lambda+lndet":
                p = cls(Sigma=A["S"], mu=A["mu"], Lambda=A["Lam"], ln_det_Sigma=A["ld"])
            elif base == "slice":
                q = cls(Sigma=A["S"], mu=A["mu"])
                q.integrate("xx'")
                p = q.slice(jnp.array([R - 1, 0, R - 1]))
            elif base == "get_marginal":
                p = cls(Sigma=A["S"], mu=A["mu"]).get_marginal(jnp.array([D - 1]))
            elif base == "get_density":
                # precision given through its inverse's Cholesky parametrisation: Lambda = S here
                u = (measure.GaussianDiagMeasure if diag else measure.GaussianMeasure)(Lambda=A["S"], nu=A["nu"], ln_beta=A["lb"])
                p = u.get_density()
            elif base == "get_density_of_product":
                u = measure.GaussianMeasure(Lambda=A["S"], nu=A["nu"], ln_beta=A["lb"])
                u.integrate()
                p = u.multiply(make_factor("onerank", "f_", A, D), update_full=True).get_density()
            elif base == "normalize":
                u = (measure.GaussianDiagMeasure if diag else measure.GaussianMeasure)(Lambda=A["S"], nu=A["nu"], ln_beta=A["lb"])
                out["before"] = u.evaluate_ln(x)
                out["mass_before"] = u.log_integral()
                u.normalize()
                p = u
            elif base == "update":
                q = cls(Sigma=A["S"], mu=A["mu"])
                q.update(jnp.array([0]), q.slice(jnp.array([R - 1])))
                p = q
            else:
                raise ValueError(producer)
        out["eval"] = p.evaluate_ln(x)
        out["f"] = fields(p)
        out["integrate"] = p.integrate()
        return out

    def claims(I, O, ops):
        F = O["f"]
        Rn = F["Lambda"].shape[0]
        cl = density_is_normalised_claims(ops, F, producer)
        # evaluate_ln is the function of the returned fields
        e = ops.zeros(O["eval"].shape)
        for r in range(Rn):
            e[r, 0] = spec.ln_factor(ops, I["x"][0], F["Lambda"][r], F["nu"][r], F["ln_beta"][r])
        cl.append((f"{producer}: evaluate_ln(x) = ln beta - x'Lambda x/2 + nu'x of the returned fields", O["eval"], e))
        if F.get("mu") is not None and F.get("Sigma") is not None:
            e2 = ops.zeros(O["eval"].shape)
            for r in range(Rn):
                e2[r, 0] = spec.logN(ops, I["x"][0], F["mu"][r], F["Sigma"][r])
            cl.append((f"{producer}: evaluate_ln(x) = ln N(x; mu, Sigma) of the returned mean and covariance", O["eval"], e2))
        one = ops.zeros((Rn,))
        for r in range(Rn):
            one[r] = ops.one()
        cl.append((f"{producer}: integrate() = 1", O["integrate"], one))
        if "before" in O:
            cl.append(("normalize: u(x) / integral(u)", O["eval"][:, 0], O["before"][:, 0] - O["mass_before"]))
        return cl

    return Case(cid, PROP, cfg, declare, fn, claims, timeout=timeout)


def cases(tier, seed=0):
    out = []
    for kind in ("measure", "diagmeasure"):
        for (D, R) in ((1, 2), (2, 2)) + (((3, 1),) if tier == "thorough" or kind == "diagmeasure" else ()):
            for h in ("fresh", "light_first", "after_query", "after_slice"):
                out.append(mass_case(kind, D, R, h))
        out.append(mass_case(kind, 2, 2, "after_multiply"))
    out.append(mass_case("measure", 2, 2, "after_onerank"))
    out.append(mass_case("pdf", 2, 2, "fresh"))
    out.append(mass_case("pdf", 2, 2, "after_multiply"))
    for pre in ("", "diag_"):
        for prod in ("ctor", "ctor+Lambda", "ctor+Lambda+lndet", "slice", "get_marginal", "get_density", "normalize", "update"):
            for (D, R) in ((2, 2), (1, 2)) + (((3, 2),) if tier == "thorough" and prod != "get_density" else ()):
                if prod == "get_marginal" and D == 1:
                    continue
                out.append(density_case(pre + prod, D, R))
    out.append(density_case("get_density_of_product", 2, 2))
    for ck in ("cond_full", "cond_diag", "cond_nncontrol"):
        for (Dx, Dy) in ((1, 1), (2, 1), (1, 2), (2, 2)):
            out.append(density_case(ck, Dy, 1 if ck == "cond_nncontrol" else 2, extra=(Dx, Dy)))
    for ck in ("cond_identity", "cond_identitydiag"):
        for D in (1, 2):
            out.append(density_case(ck, D, 2, extra=(D, D)))
    for tr in ("joint", "marginal", "conditional"):
        for kind in ("full", "diag", "identity", "identitydiag", "nncontrol"):
            dims = [(1, 1)] if kind.startswith("identity") else [(1, 1), (2, 1), (1, 2)]
            for (Dx, Dy) in dims:
                # the normalisation claim inverts the returned posterior precision (a nested inverse):
                # for Dx=2 the prior covariance is bound to generic rationals
                semi = ("Sx",) if (tr == "conditional" and Dx == 2) else ()
                out.append(density_case(f"{tr}_{kind}", Dx, 2, extra=(Dx, Dy), semi=semi))
            if tier == "thorough":
                for semi in (("Sx", "Sy"),) if not kind.startswith("identity") else (("Sx",),):
                    out.append(density_case(f"{tr}_{kind}", 2, 2, extra=(2, 2), semi=semi, timeout=1200))
    # heteroscedastic conditionals conditioned on x (A square, and A wide: see known findings)
    from .c17 import coherence_case
    for link, signs in (("exp", None), ("cosh", None), ("step", [1]), ("relu", [1])):
        for (Dx, Dy, Da, Dk) in ((1, 1, 1, 1), (2, 2, 2, 1), (1, 1, 2, 1)):
            out.append(coherence_case(link, Dx, Dy, Da, Dk, signs=signs, prop=PROP))
        out.append(coherence_case(link, 1, 2, 2, 2, signs=([1, 1] if signs else None), prop=PROP))      # two noise units
    return out
