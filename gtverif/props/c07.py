"""C07: affine_joint_transformation is the chain rule p(x,y) = p(y|x) p(x)."""
from .condprops import make_case, CTOR_VARIANTS

PROP = "C07"

BOUNDS = {
    "quick": "five conditional kinds; (Dx,Dy) in {(1,1),(2,1),(1,2)} fully symbolic and (2,2) with the prior covariance concrete (both log-determinant branches); (R_cond,R_x) in {(1,1),(1,2),(2,1)}; constructor / history / prior variants: conditional from the precision only, from covariance and precision together, after update_Sigma; prior of the diagonal class or built from covariance and precision",
    "thorough": "(3,1),(1,3),(2,3),(3,2) and identity D=3 semi-symbolic with rotating concrete blocks, batches up to 3",
}
ASSUMPTIONS = ["NN-controlled conditional: control_func(u) = u P + q with symbolic u, P (q = 0 unless stated): (M(u), b(u)) ranges over all matrices / vectors"]

KINDS = ["full", "diag", "identity", "identitydiag", "nncontrol"]


def cases(tier, seed=0):
    out = []
    batches = [(1, 1), (1, 2), (2, 1)]
    for kind in KINDS:
        ident = kind.startswith("identity")
        dims = [(1, 1), (2, 2)] if ident else [(1, 1), (2, 1), (1, 2), (2, 2)]
        for (Dx, Dy) in dims:
            for (Rc, Rx) in batches:
                if kind == "nncontrol" and Rc > 2:
                    continue
                if (Dx, Dy) == (2, 2):
                    # 2+2: fully symbolic does not finish (gcd); prior covariance bound to generic rationals
                    out.append(make_case(PROP, "joint", kind, Dx, Dy, Rc, Rx, semi=("Sx",), timeout=400))
                else:
                    out.append(make_case(PROP, "joint", kind, Dx, Dy, Rc, Rx))
        if tier == "thorough" and not ident:
            for (Dx, Dy) in [(3, 1), (1, 3), (2, 3), (3, 2)]:
                for (Rc, Rx) in batches + [(1, 3), (3, 1)]:
                    if kind == "nncontrol" and Rc > 2:
                        continue
                    out.append(make_case(PROP, "joint", kind, Dx, Dy, Rc, Rx, semi=("Sx",), timeout=900))
                    out.append(make_case(PROP, "joint", kind, Dx, Dy, Rc, Rx, semi=("Sy", "M"), timeout=900))
        if tier == "thorough" and ident:
            for (Rc, Rx) in batches + [(1, 3), (3, 1)]:
                out.append(make_case(PROP, "joint", kind, 2, 2, Rc, Rx, semi=("Sy",), timeout=900))
                out.append(make_case(PROP, "joint", kind, 3, 3, Rc, Rx, semi=("Sx",), timeout=900)) if Rc * Rx <= 2 else None
    # constructor / history variants: built from the precision only; update_Sigma before the operation
    for kind in KINDS:
        dd = (2, 2) if kind.startswith("identity") else (2, 1)
        for var in CTOR_VARIANTS:
            if kind == "nncontrol" and var in (("viaL",), ("viaSL",)):
                continue
            sm = var + ((("Sx",) if dd == (2, 2) else ()))
            out.append(make_case(PROP, "joint", kind, dd[0], dd[1], 1, 1, semi=sm, timeout=600))
            out.append(make_case(PROP, "joint", kind, 1, 1, 2, 1, semi=var, timeout=600))
    return [c for c in out if c is not None]
