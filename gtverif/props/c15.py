"""C15: specialised representations agree with the general one (purely relational: both sides are
traces of the real code; the VC is equality of every public result)."""
from fractions import Fraction
import numpy as np

from ..case import Case
from .. import spec
from .common import gt, fields, declare_factor, make_factor, make_cond
from .condprops import cond_decl, prior_decl, make_prior, CTOR_VARIANTS

PROP = "C15"
EXTRA_DRAWS = 0      # the thorough tier of this property is long already: no additional draws of the generic rationals

BOUNDS = {
    "quick": "factor kinds (rank-one, linear, constant) vs ConjugateFactor under multiply/hadamard (update_full on/off, covariance cached or not), evaluate, slice, product, expected log-factor; diagonal measure/density vs full; diagonal / identity / identity-diagonal / NN-control conditionals vs ConditionalGaussianPDF for cond(x), set_y, the three transformations, entropies and expected log-conditionals; D=2, R<=2, (Dx,Dy) in {(1,1),(2,1),(1,2)}, identity classes D<=2 with R>1 on either side",
    "thorough": "adds D=3, R=3 and (2,2) semi-symbolic",
}
ASSUMPTIONS = ["purely relational: both sides are traces of the real code (specialised class vs the general class built from the same parameters); no independent oracle is involved"]


def _objfields(o, names=("Lambda", "nu", "ln_beta", "Sigma", "ln_det_Sigma", "ln_det_Lambda", "mu", "lnZ", "M", "b")):
    return fields(o, names)


def _compare(cl, tag, a, b):
    """recursively compare two result pytrees (dict / list / arrays); only keys present in both"""
    if isinstance(a, dict):
        for k in a:
            if k in b:
                _compare(cl, f"{tag}.{k}", a[k], b[k])
    elif isinstance(a, (list, tuple)):
        for i, (x, y) in enumerate(zip(a, b)):
            _compare(cl, f"{tag}[{i}]", x, y)
    else:
        cl.append((f"{tag}: specialised = general", a, b))


def factor_case(fkind, entry, update_full, warm, D, R1, R2, timeout=400):
    cid = f"C15/factor/{fkind}/{entry}/uf{int(update_full)}/warm{int(warm)}/D{D}R{R1}x{R2}"
    cfg = dict(specialised=fkind, general="ConjugateFactor", op=entry, update_full=update_full, cached_covariance=warm, D=D, R1=R1, R2=R2)

    def declare(b):
        declare_factor(b, "measure", "u_", R1, D)
        declare_factor(b, fkind, "f_", R2, D)
        b.free("x", (1, D))

    def fn(**A):
        import jax.numpy as jnp
        factor, measure, pdf, conditional = gt()
        res = []
        for which in ("special", "general"):
            u = make_factor("measure", "u_", A, D)
            if warm:
                u.integrate()
            f = make_factor(fkind, "f_", A, D)
            if which == "general":
                f = factor.ConjugateFactor(Lambda=f.Lambda, nu=f.nu, ln_beta=f.ln_beta)
            x = A["x"]
            if entry in ("multiply", "hadamard"):
                r = getattr(u, entry)(f, update_full=update_full)
                o = {"fields": _objfields(r), "eval": r.evaluate_ln(x), "logint": r.log_integral(), "Exx": r.integrate("xx'")}
            elif entry == "self":
                o = {"eval": f.evaluate_ln(x), "evalexp": f(x), "slice": _objfields(f.slice(jnp.array([R2 - 1, 0]))),
                     "product": _objfields(f.product()), "logfactor": u.integrate("log u(x)", factor=f.slice(jnp.array([0]))),
                     "dictkeys_fields": _objfields(f)}
            res.append(o)
        return res

    def claims(I, O, ops):
        cl = []
        _compare(cl, f"{fkind}.{entry}", O[0], O[1])
        return cl

    return Case(cid, PROP, cfg, declare, fn, claims, timeout=timeout)


def diag_case(what, D, R, timeout=400):
    cid = f"C15/diag/{what}/D{D}R{R}"
    cfg = dict(specialised="GaussianDiag" + ("PDF" if what.startswith("pdf") else "Measure"), general="full class", op=what, D=D, R=R)

    def declare(b):
        b.diag("S", R, D); b.free("mu", (R, D)); b.free("lb", (R,)); b.free("x", (1, D))
        if what in ("pdf_kl",):
            b.diag("S2", R, D); b.free("mu2", (R, D))
        if what == "pdf_update":
            b.diag("S2", 1, D); b.free("mu2", (1, D))
        if what in ("measure_multiply",):
            declare_factor(b, "onerank", "f_", 1, D)
        if what == "pdf_linear_sum":
            b.free("W", (R, 1, D))

    def fn(**A):
        import jax.numpy as jnp
        factor, measure, pdf, conditional = gt()
        res = []
        for which in ("special", "general"):
            x = A["x"]
            if what.startswith("pdf"):
                cls = pdf.GaussianDiagPDF if which == "special" else pdf.GaussianPDF
                p = cls(Sigma=A["S"], mu=A["mu"])
                if what == "pdf_basic":
                    o = {"fields": _objfields(p), "eval": p.evaluate_ln(x), "entropy": p.entropy(), "Ex": p.integrate("x"), "Exx": p.integrate("xx'"),
                         "slice": _objfields(p.slice(jnp.array([R - 1, 0]))), "quad": p.integrate("(Ax+a)'(Bx+b)", A_mat=A["S"][0], a_vec=A["mu"][0])}
                elif what == "pdf_marginal":
                    m = p.get_marginal(jnp.array([D - 1, 0]))
                    o = {"fields": _objfields(m), "eval": m.evaluate_ln(x[:, jnp.array([D - 1, 0])])}
                elif what == "pdf_condition":
                    c = p.condition_on(jnp.array([0]))
                    o = {"c": {"M": c.M, "b": c.b, "Sigma": c.Sigma, "Lambda": c.Lambda, "ln_det_Sigma": c.ln_det_Sigma}}
                elif what == "pdf_kl":
                    q = cls(Sigma=A["S2"], mu=A["mu2"])
                    o = {"kl": p.kl_divergence(q)}
                elif what == "pdf_linear_sum":
                    s = p.get_density_of_linear_sum(A["W"])
                    o = {"fields": _objfields(s)}
                elif what == "pdf_update":
                    p.integrate("x")                         # caches populated before the in-place update
                    p.update(jnp.array([R - 1]), cls(Sigma=A["S2"], mu=A["mu2"]))
                    o = {"fields": _objfields(p), "one": p.integrate("1"), "Ex": p.integrate("x"), "Exx": p.integrate("xx'"), "logint": p.log_integral(),
                         "eval": p.evaluate_ln(x), "entropy": p.entropy()}
            else:
                cls = measure.GaussianDiagMeasure if which == "special" else measure.GaussianMeasure
                u = cls(Lambda=A["S"], nu=A["mu"], ln_beta=A["lb"])
                if what == "measure_basic":
                    o = {"logint": u.log_integral(), "int": u.integral(), "Ex": u.integrate("x"), "Exx": u.integrate("xx'"), "fields": _objfields(u),
                         "slice": _objfields(u.slice(jnp.array([R - 1, 0]))), "density": _objfields(u.get_density()), "eval": u.evaluate_ln(x)}
                elif what == "measure_product":
                    u.integrate()
                    pr = u.product()
                    o = {"fields": _objfields(pr), "logint": pr.log_integral()}
                elif what == "measure_multiply":
                    r = u.multiply(make_factor("onerank", "f_", A, D), update_full=True)
                    o = {"fields": _objfields(r), "logint": r.log_integral()}
            res.append(o)
        return res

    def claims(I, O, ops):
        cl = []
        _compare(cl, what, O[0], O[1])
        return cl

    return Case(cid, PROP, cfg, declare, fn, claims, timeout=timeout)


def cond_case(kind, what, Dx, Dy, Rc, Rx, N=2, semi=(), timeout=600):
    cid = f"C15/cond/{kind}/{what}/Dx{Dx}Dy{Dy}/Rc{Rc}Rx{Rx}" + ("/semi-" + "-".join(semi) if semi else "")
    cfg = dict(specialised=kind, general="ConditionalGaussianPDF", op=what, Dx=Dx, Dy=Dy, R_cond=Rc, R_x=Rx, concrete_blocks=list(semi))
    R = Rc * Rx

    def declare(b):
        cond_decl(b, kind, Rc, Dy, Dx, semi)
        prior_decl(b, Rx, Dx, semi)
        b.free("x", (N, Dx)); b.free("y", (N if Rc == 1 else Rc, Dy))
        if what == "logcond":
            b.spd("Sq", 1, Dx + Dy); b.free("mq", (1, Dx + Dy))

    def general_of(c, A):
        import jax.numpy as jnp
        factor, measure, pdf, conditional = gt()
        if kind == "diag":
            return conditional.ConditionalGaussianPDF(M=c.obj.M, b=c.obj.b, Sigma=c.obj.Sigma)
        if kind in ("identity", "identitydiag"):
            Rr = c.obj.Sigma.shape[0]
            M = jnp.tile(jnp.eye(Dy)[None], (Rr, 1, 1))
            return conditional.ConditionalGaussianPDF(M=M, b=jnp.zeros((Rr, Dy)), Sigma=c.obj.Sigma)
        if kind == "nncontrol":
            M, bb = c.obj.get_M_b(A["c_u"])
            return conditional.ConditionalGaussianPDF(M=M, b=bb, Sigma=jnp.tile(c.obj.Sigma, (M.shape[0], 1, 1)))
        raise ValueError(kind)

    def fn(**A):
        import jax.numpy as jnp
        factor, measure, pdf, conditional = gt()
        res = []
        from .common import CondWrap
        for which in ("special", "general"):
            c = make_cond(kind, "c_", A, Dy, Dx)
            if which == "general":
                c = CondWrap(general_of(c, A), {})
            px = make_prior(A)
            x, y = A["x"], A["y"]
            if what == "cond_x":
                d = c(x)
                o = {"fields": _objfields(d), "mu": c.get_conditional_mu(x)}
            elif what == "set_y":
                f = c.set_y(y)
                o = {"eval": f.evaluate_ln(x), "prod": f.product().evaluate_ln(x), "fields": _objfields(f)}
            elif what == "joint":
                o = {"fields": _objfields(c.affine_joint_transformation(px))}
            elif what == "marginal":
                o = {"fields": _objfields(c.affine_marginal_transformation(px))}
            elif what == "conditional":
                o = {"fields": _objfields(c.affine_conditional_transformation(px))}
            elif what == "info":
                o = {"Hc": c.conditional_entropy(px)}
                if kind != "nncontrol":
                    o["MI"] = c.mutual_information(px)
            elif what == "logcond":
                q = pdf.GaussianPDF(Sigma=A["Sq"], mu=A["mq"])
                o = {"ilc": c.integrate_log_conditional(q), "ilcy": c.integrate_log_conditional_y(px, y=y[:1]),
                     "ilcy_callable": c.integrate_log_conditional_y(px)(y[:1])}
            res.append(o)
        return res

    def claims(I, O, ops):
        cl = []
        _compare(cl, f"{kind}.{what}", O[0], O[1])
        return cl

    return Case(cid, PROP, cfg, declare, fn, claims, timeout=timeout)


def cases(tier, seed=0):
    out = []
    for fk in ("onerank", "linear", "constant"):
        for (uf, warm) in ((False, False), (True, False), (True, True), (False, True)):
            out.append(factor_case(fk, "multiply", uf, warm, 2, 2, 2))
            out.append(factor_case(fk, "hadamard", uf, warm, 2, 2, 2))
            out.append(factor_case(fk, "hadamard", uf, warm, 2, 2, 1))
        out.append(factor_case(fk, "self", False, False, 2, 2, 2))
        if tier == "thorough":
            if fk != "onerank":     # (D=3 rank-one updates on a cache-warm symbolic measure do not finish in 30 min: measured)
                out.append(factor_case(fk, "multiply", True, True, 3, 1, 2, timeout=1800))
                out.append(factor_case(fk, "hadamard", True, True, 3, 2, 2, timeout=1800))
            out.append(factor_case(fk, "multiply", True, True, 2, 3, 3, timeout=1800))
            if fk != "onerank":
                out.append(factor_case(fk, "multiply", False, False, 3, 1, 2, timeout=1800))
    for what in ("pdf_basic", "pdf_marginal", "pdf_condition", "pdf_kl", "pdf_linear_sum", "pdf_update", "measure_basic", "measure_product", "measure_multiply"):
        out.append(diag_case(what, 2, 2))
        if tier == "thorough" or what in ("pdf_marginal", "pdf_condition"):
            out.append(diag_case(what, 3, 2, timeout=900))
    batches = [(1, 1), (1, 2), (2, 1)]
    for kind in ("diag", "identity", "identitydiag", "nncontrol"):
        ident = kind.startswith("identity")
        dims = [(1, 1), (2, 2)] if ident else [(1, 1), (2, 1), (1, 2)]
        for (Dx, Dy) in dims:
            for what in ("cond_x", "set_y", "joint", "marginal", "conditional", "info", "logcond"):
                for (Rc, Rx) in batches:
                    if kind == "nncontrol" and Rc > 2:
                        continue
                    if what in ("logcond",) and (Rc, Rx) != (1, 1):
                        continue     # documented refusal: only implemented for R=1
                    if what in ("cond_x", "set_y") and Rx > 1:
                        continue
                    semi = ("Sx",) if (Dx, Dy) == (2, 2) and what in ("marginal", "conditional", "info", "logcond") else ()
                    out.append(cond_case(kind, what, Dx, Dy, Rc, Rx, semi=semi))
        if tier == "thorough" and not ident:
            for what in ("joint", "marginal", "conditional", "info"):
                for (Rc, Rx) in batches:
                    if kind == "nncontrol" and Rc > 2:
                        continue
                    out.append(cond_case(kind, what, 2, 2, Rc, Rx, semi=("Sx", "Sy"), timeout=1800))
    for kind in ("diag", "identity", "identitydiag", "nncontrol"):
        dd = (2, 2) if kind.startswith("identity") else (2, 1)
        for var in CTOR_VARIANTS:
            if kind == "nncontrol" and var in (("viaL",), ("viaSL",)):
                continue
            for what in ("set_y", "joint", "conditional", "info", "logcond"):
                sm = var + (("Sx",) if dd == (2, 2) and what in ("conditional", "info", "logcond") else ())
                out.append(cond_case(kind, what, dd[0], dd[1], 1, 1, semi=sm))
    return out
