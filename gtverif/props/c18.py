"""C18: JAX transformations and round trips preserve values (the clauses solver-based checking can
decide).

* round trips -- tree_flatten/tree_unflatten, to_dict/from_dict, crossing a jit boundary (argument and
  result) and a lax.scan carry: unflatten re-runs the constructor, i.e. real numeric code; the VC is
  that the rebuilt object evaluates to the same function / carries the same fields for ALL parameters.
* vmap / grad as translation validation on a bounded program set: jax.vmap(f) and jax.grad(f) are traced
  to jaxprs and interpreted symbolically; vmap output = stack of f on the slices; grad output = the
  exact derivative of f's symbolic output (chain rule through the input parametrisation).
* NOT covered: 'jit == eager' (a statement about XLA: the jaxpr we interpret IS what jit compiles) and
  'all programs'."""
from fractions import Fraction
import numpy as np

from ..case import Case
from .. import spec
from .common import gt, fields, declare_factor, make_factor, make_cond
from .condprops import cond_decl, prior_decl

PROP = "C18"

BOUNDS = {
    "quick": "round trips for every factor / measure / density / linear-conditional class with cold and warm caches (D=2, R=2); scan carry T=2; vmap over a data axis and over a parameter batch for 6 pipelines; grad w.r.t. every continuous parameter for 6 scalar pipelines (D<=2)",
    "thorough": "adds D=3 round trips, scan T=3, grad of a posterior pipeline at (2,1)",
}
ASSUMPTIONS = ["'jit equals eager' and 'all programs' are outside: equality of eager and jitted execution is a statement about XLA; the enumerated pipelines are listed in coverage.configurations",
               "grad: 'agrees with finite differences' is read as 'equals the exact derivative' of the symbolic output (differentiation of exp/ln/sqrt terms by the chain rule, rational functions by sympy)"]

FN = ("Lambda", "nu", "ln_beta", "Sigma", "ln_det_Sigma", "mu", "M", "b")


def roundtrip_case(kind, how, warm, D=2, R=2, timeout=400):
    cid = f"C18/roundtrip/{how}/{kind}/warm{warm if isinstance(warm, str) else int(warm)}/D{D}R{R}"
    cfg = dict(what="round trip", how=how, cls=kind, populated_caches=warm, D=D, R=R)
    is_cond = kind.startswith("cond_")

    def declare(b):
        if is_cond:
            cond_decl(b, kind[5:], 1 if kind == "cond_nncontrol" else R, D, D)
            b.free("x", (1, D)); b.free("y", (1, D))
        else:
            declare_factor(b, kind, "f_", R, D); b.free("x", (1, D))
            if warm == "updated":
                declare_factor(b, kind, "g_", 1, D)

    def fn(**A):
        import jax
        factor, measure, pdf, conditional = gt()
        if is_cond:
            o = make_cond(kind[5:], "c_", A, D, D).obj
        else:
            o = make_factor(kind, "f_", A, D)
        if warm == "updated":
            import jax.numpy as jnp
            # history: one component replaced by update(); the round trip must still agree with the eager object
            o.update(jnp.array([R - 1]), make_factor(kind, "g_", A, D))
        elif warm and hasattr(o, "integrate"):
            o.integrate("x")
        if how == "tree":
            leaves, td = jax.tree_util.tree_flatten(o)
            o2 = jax.tree_util.tree_unflatten(td, leaves)
        elif how == "jit":
            o2 = jax.jit(lambda a: a)(o)
        elif how == "dict":
            o2 = type(o).from_dict(o.to_dict())
        elif how == "tree_map":
            o2 = jax.tree_util.tree_map(lambda a: a * 1.0, o)

        def view(q):
            if is_cond:
                kw = {"u": A["c_u"]} if kind == "cond_nncontrol" else {}
                d = q.condition_on_x(A["x"], **kw) if kind != "cond_nncontrol" else q.condition_on_x_u(A["x"], A["c_u"])
                return {"eval": d.evaluate_ln(A["y"]), "f": fields(q, ("Sigma", "Lambda", "ln_det_Sigma"))}
            out = {"eval": q.evaluate_ln(A["x"]), "f": fields(q, FN)}
            if hasattr(q, "log_integral"):
                out["logint"] = q.log_integral()
                out["Ex"] = q.integrate("x")
            return out
        return [view(o), view(o2)]

    def claims(I, O, ops):
        cl = []
        a, b_ = O
        for k in a:
            if k == "f":
                for fk in a["f"]:
                    if fk in b_["f"]:
                        cl.append((f"{how} round trip keeps field {fk}", b_["f"][fk], a["f"][fk]))
            else:
                cl.append((f"{how} round trip: {k} of the rebuilt object = of the original", b_[k], a[k]))
        return cl

    return Case(cid, PROP, cfg, declare, fn, claims, timeout=timeout)


def scan_case(T, Dz=1, timeout=600, semi=False):
    cid = f"C18/scan-carry/kalman/Dz{Dz}T{T}" + ("/semi-A-Q-C-R-S0" if semi else "")
    cfg = dict(what="lax.scan with a density as carry (Kalman filter) equals the unrolled Python loop", T=T, Dz=Dz,
               concrete_blocks=["A", "Q", "C", "R", "S0"] if semi else [])

    def declare(b):
        if semi:     # model matrices generic rationals; initial mean, offsets and data symbolic
            b.const("A", b.rat_array((1, Dz, Dz), nonzero=True)); b.free("a", (1, Dz)); b.const("Q", b.rat_spd(1, Dz))
            b.const("C", b.rat_array((1, 1, Dz), nonzero=True)); b.free("d", (1, 1)); b.const("Rn", b.rat_spd(1, 1))
            b.const("S0", b.rat_spd(1, Dz)); b.free("m0", (1, Dz)); b.free("y", (T, 1))
            return
        b.free("A", (1, Dz, Dz)); b.free("a", (1, Dz)); b.spd("Q", 1, Dz)
        b.free("C", (1, 1, Dz)); b.free("d", (1, 1)); b.spd("Rn", 1, 1)
        b.spd("S0", 1, Dz); b.free("m0", (1, Dz)); b.free("y", (T, 1))

    def fn(**A):
        import jax
        factor, measure, pdf, conditional = gt()
        state = conditional.ConditionalGaussianPDF(M=A["A"], b=A["a"], Sigma=A["Q"])
        obs = conditional.ConditionalGaussianPDF(M=A["C"], b=A["d"], Sigma=A["Rn"])
        p0 = pdf.GaussianPDF(Sigma=A["S0"], mu=A["m0"])

        def step(p, y):
            pred = state.affine_marginal_transformation(p)
            post = obs.affine_conditional_transformation(pred).condition_on_x(y[None])
            return post, (post.mu, obs.affine_marginal_transformation(pred).evaluate_ln(y[None])[0, 0])
        pT, (mus, evs) = jax.lax.scan(step, p0, A["y"])
        p = p0
        mus2, evs2 = [], []
        for t in range(T):
            p, (m, e) = step(p, A["y"][t])
            mus2.append(m); evs2.append(e)
        return {"scan": {"mu": pT.mu, "Sigma": pT.Sigma, "Lambda": pT.Lambda, "ln_det_Sigma": pT.ln_det_Sigma, "mus": mus, "evs": evs},
                "loop": {"mu": p.mu, "Sigma": p.Sigma, "Lambda": p.Lambda, "ln_det_Sigma": p.ln_det_Sigma, "mus": mus2, "evs": evs2}}

    def claims(I, O, ops):
        cl = []
        for k in ("mu", "Sigma", "Lambda", "ln_det_Sigma"):
            cl.append((f"scan carry: final {k} = python loop", O["scan"][k], O["loop"][k]))
        for t in range(T):
            cl.append((f"scan output mu[{t}]", O["scan"]["mus"][t], O["loop"]["mus"][t]))
            cl.append((f"scan output evidence[{t}]", O["scan"]["evs"][t], O["loop"]["evs"][t]))
        return cl

    return Case(cid, PROP, cfg, declare, fn, claims, timeout=timeout)


# ------------------------------------------------------------------------------ pipelines for vmap / grad
def pipelines():
    """name -> (declare(b), f(A) -> scalar, names of the array inputs to differentiate / vmap)"""
    P = {}

    def d1(b):
        b.spd("S", 1, 2); b.free("mu", (1, 2)); b.free("x", (3, 2))

    def f1(A):
        factor, measure, pdf, conditional = gt()
        return pdf.GaussianPDF(Sigma=A["S"], mu=A["mu"]).evaluate_ln(A["x"]).sum()
    P["loglik"] = (d1, f1, ["S", "mu", "x"])

    def d2(b):
        b.spd("S", 1, 2); b.free("mu", (1, 2)); b.free("Am", (1, 2)); b.free("av", (1,))

    def f2(A):
        factor, measure, pdf, conditional = gt()
        p = pdf.GaussianPDF(Sigma=A["S"], mu=A["mu"])
        return p.integrate("(Ax+a)'(Bx+b)(Cx+c)'(Dx+d)", A_mat=A["Am"], a_vec=A["av"], B_mat=A["Am"], b_vec=A["av"])[0]
    P["quartic"] = (d2, f2, ["S", "mu", "Am", "av"])

    def mk_trunc(one_sided):
        def d(b):
            b.pos("s", (1,)); b.free("nu", (1, 1)); b.free("lb", (1,)); b.free("a", (1, 1))
            if not one_sided:
                b.pos("gap", (1, 1))
            b.phi_slots(3)

        def f(A):
            import jax.numpy as jnp
            from ..phi import patched_norm
            from gaussian_toolbox.experimental import truncated_measure as tm
            factor, measure, pdf, conditional = gt()
            with patched_norm():
                u = measure.GaussianMeasure(Lambda=(1.0 / A["s"] ** 2)[:, None, None], nu=A["nu"], ln_beta=A["lb"])
                t = tm.TruncatedGaussianMeasure(measure=u, lower_limit=A["a"], upper_limit=(jnp.inf if one_sided else A["a"] + A["gap"]))
                return t.integrate("1")[0] + t.integrate("x")[0, 0] + t.integrate("x**2")[0, 0]
        return d, f, ["s", "nu", "lb", "a"]
    P["truncated_onesided"] = mk_trunc(True)
    P["truncated_twosided"] = mk_trunc(False)

    def d3(b):
        b.spd("L", 1, 2); b.free("nu", (1, 2)); b.free("lb", (1,)); b.free("v", (1, 2)); b.pos("g", (1,))

    def f3(A):
        factor, measure, pdf, conditional = gt()
        u = measure.GaussianMeasure(Lambda=A["L"], nu=A["nu"], ln_beta=A["lb"])
        u.integrate()
        r = u.multiply(factor.OneRankFactor(v=A["v"], g=A["g"]), update_full=True)
        return r.log_integral()[0]
    P["rankone_logint"] = (d3, f3, ["L", "nu", "lb", "v", "g"])

    def d4(b):
        b.spd("Sp", 1, 2); b.free("mp", (1, 2)); b.spd("Sq", 1, 2); b.free("mq", (1, 2))

    def f4(A):
        factor, measure, pdf, conditional = gt()
        return pdf.GaussianPDF(Sigma=A["Sp"], mu=A["mp"]).kl_divergence(pdf.GaussianPDF(Sigma=A["Sq"], mu=A["mq"]))[0]
    P["kl"] = (d4, f4, ["Sp", "mp", "Sq", "mq"])

    def d5(b):
        b.free("M", (1, 1, 1)); b.free("bb", (1, 1)); b.spd("Sy", 1, 1); b.spd("Sx", 1, 1); b.free("mx", (1, 1)); b.free("y", (1, 1)); b.free("x", (1, 1))

    def f5(A):
        factor, measure, pdf, conditional = gt()
        c = conditional.ConditionalGaussianPDF(M=A["M"], b=A["bb"], Sigma=A["Sy"])
        px = pdf.GaussianPDF(Sigma=A["Sx"], mu=A["mx"])
        post = c.affine_conditional_transformation(px).condition_on_x(A["y"])
        return post.evaluate_ln(A["x"])[0, 0] + c.affine_marginal_transformation(px).evaluate_ln(A["y"])[0, 0]
    P["posterior"] = (d5, f5, ["M", "bb", "Sy", "Sx", "mx", "y", "x"])

    def d6(b):
        b.free("M", (1, 1, 2)); b.free("bb", (1, 1)); b.spd("Sy", 1, 1); b.spd("Sx", 1, 2); b.free("mx", (1, 2)); b.free("y", (2, 1))

    def f6(A):
        factor, measure, pdf, conditional = gt()
        c = conditional.ConditionalGaussianPDF(M=A["M"], b=A["bb"], Sigma=A["Sy"])
        px = pdf.GaussianPDF(Sigma=A["Sx"], mu=A["mx"])
        return c.integrate_log_conditional_y(px, y=A["y"][:1])[0] + c.conditional_entropy(px)[0]
    P["elbo_terms"] = (d6, f6, ["M", "bb", "Sy", "Sx", "mx", "y"])
    return P


def grad_case(name, timeout=900):
    decl, f, names = pipelines()[name]
    cid = f"C18/grad/{name}"
    cfg = dict(what="jax.grad of a scalar pipeline equals the exact derivative", pipeline=name, wrt=names)

    def fn(**A):
        import jax
        val, grads = jax.value_and_grad(lambda B: f({**A, **B}))({n: A[n] for n in names})
        return {"val": val, "grads": grads}

    def claims(I, O, ops):
        cl = []
        if not ops.symbolic:
            # float replay on the real code: central difference of f along a fixed direction versus grad . direction
            import jax.numpy as jnp
            rng = np.random.RandomState(3)
            dirs = {n: rng.uniform(-1, 1, size=np.shape(I[n])) for n in names}
            for n in names:
                if I[n].ndim == 3 and I[n].shape[-1] == I[n].shape[-2]:
                    dirs[n] = 0.5 * (dirs[n] + np.swapaxes(dirs[n], -1, -2))     # keep covariances symmetric
            h = 1e-5
            fp = float(f({k: jnp.asarray(np.asarray(v) + (h * dirs[k] if k in dirs else 0.0)) for k, v in I.items()}))
            fm = float(f({k: jnp.asarray(np.asarray(v) - (h * dirs[k] if k in dirs else 0.0)) for k, v in I.items()}))
            dd = sum(float(np.sum(np.asarray(O["grads"][n]) * dirs[n])) for n in names)
            return [("grad . direction = central difference of f on the real code", np.array(dd), np.array((fp - fm) / (2 * h)))]
        ctx = ops.ctx
        val = O["val"][()] if isinstance(O["val"], np.ndarray) else O["val"]
        from ..symdom import sdiff
        if getattr(ctx, "phi", None) is not None:
            sdiff = ctx.phi.total_diff          # the cdf atoms depend on the inputs: d Phi(t) = phi(t) dt
        for v in ctx.names:
            if v == "PI" or v.startswith("PHI_"):
                continue
            lhs = sdiff(val, v)
            rhs = ctx.ZERO
            used = False
            for n in names:
                for idx in np.ndindex(*I[n].shape):
                    dv = sdiff(I[n][idx], v)
                    if not dv.is_zero():
                        rhs = rhs + O["grads"][n][idx] * dv
                        used = True
            if used:
                cl.append((f"d f / d {v} = sum_entries grad[entry] * d entry / d {v}", lhs, rhs))
        return cl

    return Case(cid, PROP, cfg, decl, fn, claims, timeout=timeout)


def vmap_case(name, axis_input, timeout=900):
    decl, f, names = pipelines()[name]
    cid = f"C18/vmap/{name}/over-{axis_input}"
    cfg = dict(what="jax.vmap equals the stack of per-slice results", pipeline=name, mapped_input=axis_input)
    NB = 2

    def declare(b):
        decl(b)
        # a batch of values for the mapped input
        inp = [i for i in b.inputs if i.name == axis_input][0]
        if inp.kind == "spd":
            b.spd(axis_input + "_batch0", inp.shape[0], inp.shape[1]); b.spd(axis_input + "_batch1", inp.shape[0], inp.shape[1])
        elif inp.kind == "pos":
            b.pos(axis_input + "_batch0", inp.shape); b.pos(axis_input + "_batch1", inp.shape)
        else:
            b.free(axis_input + "_batch0", inp.shape); b.free(axis_input + "_batch1", inp.shape)

    def fn(**A):
        import jax
        import jax.numpy as jnp
        batch = jnp.stack([A[axis_input + "_batch0"], A[axis_input + "_batch1"]])
        base = {k: v for k, v in A.items() if not k.startswith(axis_input + "_batch")}
        vm = jax.vmap(lambda z: f({**base, axis_input: z}))(batch)
        each = [f({**base, axis_input: batch[k]}) for k in range(NB)]
        return {"vmap": vm, "each": each}

    def claims(I, O, ops):
        return [(f"vmap(f)[{k}] = f(slice {k})", O["vmap"][k], O["each"][k]) for k in range(NB)]

    return Case(cid, PROP, cfg, declare, fn, claims, timeout=timeout)


def cases(tier, seed=0):
    out = []
    kinds = ["conjugate", "onerank", "linear", "constant", "measure", "diagmeasure", "pdf", "diagpdf",
             "cond_full", "cond_diag", "cond_identity", "cond_identitydiag", "cond_nncontrol"]
    for k in kinds:
        for how in ("tree", "jit", "tree_map"):
            for warm in ((False, True) if k in ("measure", "diagmeasure", "pdf", "diagpdf") else (False,)):
                out.append(roundtrip_case(k, how, warm))
        if k in ("pdf", "diagpdf"):
            for how in ("tree", "jit", "dict"):
                out.append(roundtrip_case(k, how, "updated"))
        if not k.startswith("cond_"):
            out.append(roundtrip_case(k, "dict", False))
            if k in ("measure", "pdf"):
                out.append(roundtrip_case(k, "dict", True))
    if tier == "thorough":
        for k in ("pdf", "measure", "onerank", "cond_full"):
            out.append(roundtrip_case(k, "jit", k in ("pdf", "measure"), D=3, R=2, timeout=1500))
    out.append(scan_case(2, 1))
    out.append(scan_case(6, 2, semi=True))
    if tier == "thorough":
        out.append(scan_case(3, 1, timeout=3000))
        out.append(scan_case(12, 2, semi=True, timeout=3000))
        out.append(scan_case(8, 3, semi=True, timeout=3000))
    for name, (decl, f, names) in pipelines().items():
        out.append(grad_case(name))
    # gradient through the heteroscedastic variational bound (lax.while_loop + stop_gradient on the variational parameters)
    from .c17 import tightness_case
    for link in ("exp", "cosh"):
        for (Dx, Dy, Dk, signs) in ((1, 1, 1, [1]), (2, 2, 1, [-1])):
            out.append(tightness_case(link, Dx, Dy, Dk, signs, mode="grad", prop=PROP))
    out += [vmap_case("loglik", "x"), vmap_case("loglik", "mu"), vmap_case("quartic", "mu"), vmap_case("kl", "mq"),
            vmap_case("rankone_logint", "v"), vmap_case("posterior", "y"), vmap_case("elbo_terms", "mx"), vmap_case("loglik", "S")]
    return out
