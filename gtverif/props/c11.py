"""C11: Bayesian updating is path independent (posterior and evidence); Kalman filtering equals
conditioning the dense joint.

Every route is a trace of the real code; they are compared with each other AND with an independent
specification (posterior precision / dense joint built by spec.py with adjugate inverses)."""
from fractions import Fraction
import itertools
import numpy as np

from ..case import Case
from .. import spec
from .common import gt

PROP = "C11"

BOUNDS = {
    "quick": "regression with N=4 observations and all 24 update orders (matrices concrete); Kalman T=6 (Dz=2) and T=8 (Dz=1) with all model matrices bound to generic rationals and initial mean, offsets and data symbolic; prior built from Sigma / Sigma+Lambda / all three / a measure / diagonal; regression: N=2 observations with individual (M_i,b_i,Sigma_i), Dy=1; Dw=1 fully symbolic, Dw=2 with the matrices bound to generic rationals (means, offsets and data symbolic) and with M symbolic (covariances concrete); both update orders; routes: sequential, joint+condition_on, prior*prod set_y; Kalman: T=2, scalar state fully symbolic, 2-d state with concrete matrices",
    "thorough": "Kalman T=12 (Dz=2,Dy=1), T=8 (2,2), T=6 (3,2) with concrete matrices; N=3 (all 6 orders) semi-symbolic, Dy=2, T=3 scalar, T=2 with Dz=2 and symbolic A or C",
}
ASSUMPTIONS = ["fully symbolic filters beyond T=3 and N>3 are outside (expression growth is exponential in the number of nested inverses); T up to 12 is covered with the model matrices bound to seeded generic rationals (a sample in the matrices, universally quantified in the initial mean, offsets and all data); explored orders are all permutations for the stated N"]


def _bind(b, name, kind, shape, concrete):
    """declare block `name`; concrete -> generic rationals"""
    if concrete:
        if kind == "spd":
            b.const(name, b.rat_spd(shape[0], shape[1]))
        elif kind == "pos":
            a = np.empty(shape, dtype=object)
            for idx in np.ndindex(*shape):
                a[idx] = Fraction(b.rng.randint(1, 6), 2)
            b.const(name, a)
        else:
            b.const(name, b.rat_array(shape, nonzero=True))
    else:
        if kind == "spd":
            b.spd(name, shape[0], shape[1])
        elif kind == "pos":
            b.pos(name, shape)
        else:
            b.free(name, shape)


def regression_case(Dw, Dy, N, concrete=(), timeout=900, cond="full", via="Sigma", prior_via="Sigma"):
    """prior_via: how the prior density is built -- 'Sigma' (covariance only), 'SigmaLambda' (covariance and a consistent
    precision, log-determinant left to the constructor), 'all' (covariance, precision and log-determinant), 'measure'
    (GaussianMeasure(Lambda, nu).get_density()), 'diag' (GaussianDiagPDF)"""
    cid = f"C11/regression/Dw{Dw}Dy{Dy}N{N}" + ("/concrete-" + "-".join(concrete) if concrete else "") + (f"/{cond}-via{via}" if (cond, via) != ("full", "Sigma") else "") + (f"/prior-{prior_via}" if prior_via != "Sigma" else "")
    cfg = dict(workflow="Bayesian linear regression, three routes, all update orders", Dw=Dw, Dy=Dy, N=N, concrete_blocks=list(concrete),
               conditional_class=cond, constructed_from=via)
    perms = list(itertools.permutations(range(N)))
    cond_kind = cond

    def declare(b):
        if prior_via == "diag":
            b.diag("Sw", 1, Dw)
        else:
            _bind(b, "Sw", "spd", (1, Dw), "Sw" in concrete)
        if prior_via in ("SigmaLambda", "all", "measure"):
            from .c02 import _inv_of, _lndet_of
            b.derived("Lw", (1, Dw, Dw), _inv_of("Sw", 1, Dw))
            b.derived("ldw", (1,), _lndet_of("Sw", 1))
        b.free("mw", (1, Dw))
        _bind(b, "M", "free", (N, Dy, Dw), "M" in concrete)
        b.free("bb", (N, Dy))
        if cond == "diag":
            b.diag("Sy", N, Dy)
        else:
            _bind(b, "Sy", "spd", (N, Dy), "Sy" in concrete)
        if via in ("Lambda", "SigmaLambda"):
            from .c02 import _inv_of
            b.derived("Ly", (N, Dy, Dy), _inv_of("Sy", N, Dy))
        b.free("y", (N, Dy))

    def fn(**A):
        import jax.numpy as jnp
        factor, measure, pdf, conditional = gt()
        if prior_via == "Sigma":
            prior = pdf.GaussianPDF(Sigma=A["Sw"], mu=A["mw"])
        elif prior_via == "diag":
            prior = pdf.GaussianDiagPDF(Sigma=A["Sw"], mu=A["mw"])
        elif prior_via == "SigmaLambda":
            prior = pdf.GaussianPDF(Sigma=A["Sw"], mu=A["mw"], Lambda=A["Lw"])
        elif prior_via == "all":
            prior = pdf.GaussianPDF(Sigma=A["Sw"], mu=A["mw"], Lambda=A["Lw"], ln_det_Sigma=A["ldw"])
        else:
            prior = measure.GaussianMeasure(Lambda=A["Lw"], nu=jnp.einsum("rij,rj->ri", A["Lw"], A["mw"]), ln_beta=jnp.ones((1,))).get_density()
        ccls = conditional.ConditionalGaussianDiagPDF if cond_kind == "diag" else conditional.ConditionalGaussianPDF
        covkw = {"Lambda": A["Ly"]} if via == "Lambda" else {"Sigma": A["Sy"]}
        if via == "SigmaLambda":      # covariance AND a consistent precision, log-determinant left to the constructor
            covkw = {"Sigma": A["Sy"], "Lambda": A["Ly"]}
        cond = ccls(M=A["M"], b=A["bb"], **covkw)
        y = A["y"]
        out = {"seq": []}
        # (a) sequential, every order
        for perm in perms:
            p = prior
            ev = 0.0
            for i in perm:
                ci = cond.slice(jnp.array([i]))
                yi = y[i:i + 1]
                ev = ev + ci.affine_marginal_transformation(p).evaluate_ln(yi)[0, 0]
                p = ci.affine_conditional_transformation(p).condition_on_x(yi)
            out["seq"].append({"mu": p.mu, "Sigma": p.Sigma, "evidence": ev})
        # (b) joint over (w, y_1..y_N), then coordinate conditioning
        j = prior
        for i in range(N):
            Mi = jnp.concatenate([A["M"][i:i + 1], jnp.zeros((1, Dy, i * Dy))], axis=2)
            ci = conditional.ConditionalGaussianPDF(M=Mi, b=A["bb"][i:i + 1], Sigma=A["Sy"][i:i + 1])
            j = ci.affine_joint_transformation(j)
        ydims = jnp.arange(Dw, Dw + N * Dy)
        yflat = y.reshape((1, N * Dy))
        pj = j.condition_on(ydims).condition_on_x(yflat)
        out["joint"] = {"mu": pj.mu, "Sigma": pj.Sigma, "evidence": j.get_marginal(ydims).evaluate_ln(yflat)[0, 0]}
        # (c) prior x product of likelihood factors
        lik = cond.set_y(y).product()
        post = prior.multiply(lik, update_full=True)
        d = post.get_density()
        out["prod"] = {"mu": d.mu, "Sigma": d.Sigma, "evidence": post.log_integral()[0]}
        # the same route through the * operator (no covariance update requested: the result inverts lazily)
        post2 = prior * lik
        ev2 = post2.log_integral()[0]
        d2 = post2.get_density()
        out["prod_lazy"] = {"mu": d2.mu, "Sigma": d2.Sigma, "evidence": ev2}
        return out

    def truth(I, ops):
        Sw, mw, M, bb, Sy, y = I["Sw"][0], I["mw"][0], I["M"], I["bb"], I["Sy"], I["y"]
        Li, _ = spec.inv(ops, Sw)
        Lp = Li.copy(); nu = spec.mv(Li, mw)
        for i in range(N):
            Syi, _ = spec.inv(ops, Sy[i])
            Lp = Lp + spec.mm(spec.mm(M[i].T, Syi), M[i])
            nu = nu + spec.mv(spec.mm(M[i].T, Syi), y[i] - bb[i])
        Sp, _ = spec.inv(ops, Lp)
        mp = spec.mv(Sp, nu)
        # evidence: y ~ N(M mw + b, blockdiag(Sy) + M Sw M')
        ND = N * Dy
        Mall = ops.zeros((ND, Dw)); mean = ops.zeros((ND,)); cov = ops.zeros((ND, ND)); yv = ops.zeros((ND,))
        for i in range(N):
            Mall[i * Dy:(i + 1) * Dy] = M[i]
            mean[i * Dy:(i + 1) * Dy] = spec.mv(M[i], mw) + bb[i]
            cov[i * Dy:(i + 1) * Dy, i * Dy:(i + 1) * Dy] = Sy[i]
            yv[i * Dy:(i + 1) * Dy] = y[i]
        cov = cov + spec.mm(spec.mm(Mall, Sw), Mall.T)
        ev = spec.logN(ops, yv, mean, cov)
        return mp, Sp, ev

    def mk_claims(adjust):
        def claims(I, O, ops):
            mp, Sp, ev = truth(I, ops)
            cl = []
            for k, perm in enumerate(perms):
                s = O["seq"][k]
                cl.append((f"sequential order {perm}: posterior mean", s["mu"][0], mp))
                cl.append((f"sequential order {perm}: posterior covariance", s["Sigma"][0], Sp))
                cl.append((f"sequential order {perm}: accumulated predictive log-density = log marginal likelihood", s["evidence"], ev))
            cl.append(("joint + condition_on: posterior mean", O["joint"]["mu"][0], mp))
            cl.append(("joint + condition_on: posterior covariance", O["joint"]["Sigma"][0], Sp))
            cl.append(("joint marginal of y at the data = log marginal likelihood", O["joint"]["evidence"], ev))
            cl.append(("prior x prod set_y: posterior mean", O["prod"]["mu"][0], mp))
            cl.append(("prior x prod set_y: posterior covariance", O["prod"]["Sigma"][0], Sp))
            evp = ev
            if adjust:
                evp = ev + ops.c(Fraction(N * (Dy - Dw), 2)) * ops.ln2pi()
            cl.append(("log_integral(prior x prod set_y) = log marginal likelihood", O["prod"]["evidence"], evp))
            cl.append(("prior * prod set_y (operator, lazy inversion): posterior mean", O["prod_lazy"]["mu"][0], mp))
            cl.append(("prior * prod set_y (operator, lazy inversion): posterior covariance", O["prod_lazy"]["Sigma"][0], Sp))
            cl.append(("log_integral(prior * prod set_y) (operator) = log marginal likelihood", O["prod_lazy"]["evidence"], evp))
            return cl
        return claims

    adjusted = ("C11-evidence-through-sety-normaliser", mk_claims(True)) if Dw != Dy else None
    return Case(cid, PROP, cfg, declare, fn, mk_claims(False), timeout=timeout, adjusted=adjusted)


def batched_update_case(Dw, Dy, Rp=2, N=2, timeout=900, concrete=()):
    """one Bayesian update carried out for a BATCH: Rp different priors, one observation model, N data vectors in a single
    condition_on_x call; component r*N+n of the result must be the posterior of prior r given datum n, and the predictive
    log-densities must be the N x Rp marginal likelihoods"""
    cid = f"C11/batched-update/Dw{Dw}Dy{Dy}/Rp{Rp}N{N}" + ("/concrete-" + "-".join(concrete) if concrete else "")
    cfg = dict(workflow="one update step for a batch of priors and several data vectors at once (layout r*N+n)", Dw=Dw, Dy=Dy, R_prior=Rp, N=N, concrete_blocks=list(concrete))

    def declare(b):
        _bind(b, "Sw", "spd", (Rp, Dw), "Sw" in concrete); b.free("mw", (Rp, Dw))
        _bind(b, "M", "free", (1, Dy, Dw), "M" in concrete); b.free("bb", (1, Dy)); _bind(b, "Sy", "spd", (1, Dy), "Sy" in concrete)
        b.free("y", (N, Dy))

    def fn(**A):
        factor, measure, pdf, conditional = gt()
        prior = pdf.GaussianPDF(Sigma=A["Sw"], mu=A["mw"])
        c = conditional.ConditionalGaussianPDF(M=A["M"], b=A["bb"], Sigma=A["Sy"])
        post = c.affine_conditional_transformation(prior).condition_on_x(A["y"])
        pred = c.affine_marginal_transformation(prior).evaluate_ln(A["y"])
        return {"mu": post.mu, "Sigma": post.Sigma, "Lambda": post.Lambda, "ln_det_Sigma": post.ln_det_Sigma, "nu": post.nu, "pred": pred}

    def claims(I, O, ops):
        M, bb, Sy = I["M"][0], I["bb"][0], I["Sy"][0]
        Syi, _ = spec.inv(ops, Sy)
        emu = ops.zeros((Rp * N, Dw)); eS = ops.zeros((Rp * N, Dw, Dw)); eL = ops.zeros((Rp * N, Dw, Dw)); eld = ops.zeros((Rp * N,)); epred = ops.zeros((Rp, N))
        for r in range(Rp):
            Li, _ = spec.inv(ops, I["Sw"][r])
            Lp = Li + spec.mm(spec.mm(M.T, Syi), M)
            Sp, dLp = spec.inv(ops, Lp)
            cov_y = Sy + spec.mm(spec.mm(M, I["Sw"][r]), M.T)
            for n in range(N):
                nu = spec.mv(Li, I["mw"][r]) + spec.mv(spec.mm(M.T, Syi), I["y"][n] - bb)
                emu[r * N + n] = spec.mv(Sp, nu); eS[r * N + n] = Sp; eL[r * N + n] = Lp; eld[r * N + n] = -ops.lnabs(dLp)
                epred[r, n] = spec.logN(ops, I["y"][n], spec.mv(M, I["mw"][r]) + bb, cov_y)
        return [("posterior mean of (prior r, datum n) in component r*N+n", O["mu"], emu), ("posterior covariance in component r*N+n", O["Sigma"], eS),
                ("posterior precision in component r*N+n", O["Lambda"], eL), ("posterior ln det Sigma in component r*N+n", O["ln_det_Sigma"], eld),
                ("predictive log-density [r, n]", O["pred"], epred)]

    return Case(cid, PROP, cfg, declare, fn, claims, timeout=timeout)


def kalman_case(Dz, Dy, T, concrete=(), timeout=900):
    cid = f"C11/kalman/Dz{Dz}Dy{Dy}T{T}" + ("/concrete-" + "-".join(concrete) if concrete else "")
    cfg = dict(workflow="Kalman filter (predict / update / accumulate evidence) vs conditioning the dense joint built independently", Dz=Dz, Dy=Dy, T=T, concrete_blocks=list(concrete))

    def declare(b):
        _bind(b, "A", "free", (1, Dz, Dz), "A" in concrete); b.free("a", (1, Dz)); _bind(b, "Q", "spd", (1, Dz), "Q" in concrete)
        _bind(b, "C", "free", (1, Dy, Dz), "C" in concrete); b.free("d", (1, Dy)); _bind(b, "Rn", "spd", (1, Dy), "R" in concrete)
        _bind(b, "S0", "spd", (1, Dz), "S0" in concrete); b.free("m0", (1, Dz)); b.free("y", (T, Dy))

    def fn(**A):
        factor, measure, pdf, conditional = gt()
        state = conditional.ConditionalGaussianPDF(M=A["A"], b=A["a"], Sigma=A["Q"])
        obs = conditional.ConditionalGaussianPDF(M=A["C"], b=A["d"], Sigma=A["Rn"])
        p = pdf.GaussianPDF(Sigma=A["S0"], mu=A["m0"])
        ev = 0.0
        for t in range(T):
            pred = state.affine_marginal_transformation(p)
            yt = A["y"][t:t + 1]
            ev = ev + obs.affine_marginal_transformation(pred).evaluate_ln(yt)[0, 0]
            p = obs.affine_conditional_transformation(pred).condition_on_x(yt)
        return {"mu": p.mu, "Sigma": p.Sigma, "evidence": ev}

    def claims(I, O, ops):
        A_, a, Q, C, d, Rn = I["A"][0], I["a"][0], I["Q"][0], I["C"][0], I["d"][0], I["Rn"][0]
        # dense joint over (z_1..z_T, y_1..y_T): means and covariances by the linear-Gaussian recursion
        nz, ny = T * Dz, T * Dy
        Dtot = nz + ny
        mean = ops.zeros((Dtot,)); cov = ops.zeros((Dtot, Dtot))
        mz = [None] * T; Pz = [[None] * T for _ in range(T)]
        mprev, Pprev = I["m0"][0], I["S0"][0]
        for t in range(T):
            mz[t] = spec.mv(A_, mprev) + a
            Pz[t][t] = spec.mm(spec.mm(A_, Pprev), A_.T) + Q
            for s in range(t):
                Pz[t][s] = spec.mm(A_, Pz[t - 1][s])      # cov(z_t, z_s) = A cov(z_{t-1}, z_s), s < t
                Pz[s][t] = Pz[t][s].T
            mprev, Pprev = mz[t], Pz[t][t]
        for t in range(T):
            mean[t * Dz:(t + 1) * Dz] = mz[t]
            mean[nz + t * Dy: nz + (t + 1) * Dy] = spec.mv(C, mz[t]) + d
            for s in range(T):
                cov[t * Dz:(t + 1) * Dz, s * Dz:(s + 1) * Dz] = Pz[t][s]
                cz = spec.mm(C, Pz[t][s])                   # cov(y_t, z_s)
                cov[nz + t * Dy: nz + (t + 1) * Dy, s * Dz:(s + 1) * Dz] = cz
                cov[s * Dz:(s + 1) * Dz, nz + t * Dy: nz + (t + 1) * Dy] = cz.T
                cyy = spec.mm(cz, C.T)
                if s == t:
                    cyy = cyy + Rn
                cov[nz + t * Dy: nz + (t + 1) * Dy, nz + s * Dy: nz + (s + 1) * Dy] = cyy
        yv = I["y"].reshape(-1)
        a_idx = list(range((T - 1) * Dz, T * Dz)); b_idx = list(range(nz, Dtot))
        Mc, bc, Sc = spec.schur_conditional(ops, mean, cov, a_idx, b_idx)
        mu_f = spec.mv(Mc, yv) + bc
        ev = spec.logN(ops, yv, mean[nz:], cov[nz:, nz:])
        return [("filtered mean = E[z_T | y_1..y_T] from the dense joint", O["mu"][0], mu_f),
                ("filtered covariance = Cov[z_T | y_1..y_T] from the dense joint", O["Sigma"][0], Sc),
                ("accumulated evidence = ln p(y_1..y_T) from the dense joint", O["evidence"], ev)]

    return Case(cid, PROP, cfg, declare, fn, claims, timeout=timeout)


def cases(tier, seed=0):
    out = [regression_case(1, 1, 2),
           regression_case(2, 1, 2, concrete=("Sw", "M", "Sy")),
           regression_case(2, 1, 2, concrete=("Sw", "Sy")),
           regression_case(2, 1, 2, concrete=("M", "Sy")),
           regression_case(2, 1, 2, concrete=("M", "Sw")),
           regression_case(1, 2, 2, concrete=("Sy", "Sw")),
           regression_case(1, 1, 2, cond="diag", via="Lambda"),
           regression_case(1, 1, 2, cond="full", via="Lambda"),
           regression_case(1, 1, 2, cond="diag", via="Sigma"),
           regression_case(1, 1, 2, cond="full", via="SigmaLambda"), regression_case(1, 1, 2, cond="diag", via="SigmaLambda"),
           # (Dw=Dy=2 with a symbolic noise covariance built both ways did not finish in 20 min: outside the bounds)
           regression_case(1, 1, 2, prior_via="SigmaLambda"), regression_case(1, 1, 2, prior_via="all"),
           regression_case(1, 1, 2, prior_via="measure"), regression_case(1, 1, 2, prior_via="diag"),
           regression_case(2, 1, 2, concrete=("M", "Sy"), prior_via="SigmaLambda"), regression_case(2, 1, 2, concrete=("M", "Sy"), prior_via="diag"),
           batched_update_case(1, 1), batched_update_case(2, 1, concrete=("Sy",)), batched_update_case(1, 2, Rp=2, N=3, concrete=("Sy",)),
           kalman_case(1, 1, 2),
           kalman_case(2, 1, 2, concrete=("A", "Q", "C", "R", "S0")),
           kalman_case(2, 1, 2, concrete=("A", "Q", "R", "S0")),
           kalman_case(1, 2, 2, concrete=("R",)),
           # N = 4 observations, all 24 update orders; matrices generic rationals, prior mean / offsets / data symbolic
           regression_case(2, 1, 4, concrete=("Sw", "M", "Sy"), timeout=1200),
           regression_case(2, 2, 4, concrete=("Sw", "M", "Sy"), timeout=1200),
           # long filters: all model matrices generic rationals, initial mean / offsets / all data symbolic
           kalman_case(2, 1, 6, concrete=("A", "Q", "C", "R", "S0")),
           kalman_case(1, 1, 8, concrete=("A", "Q", "C", "R", "S0"))]
    if tier == "thorough":
        out += [regression_case(1, 1, 3, timeout=3000),
                regression_case(2, 1, 3, concrete=("Sw", "M", "Sy"), timeout=3000),
                regression_case(2, 2, 2, concrete=("Sw", "M", "Sy"), timeout=3000),
                regression_case(2, 1, 2, concrete=("Sw",), timeout=3000),
                regression_case(3, 1, 2, concrete=("Sw", "M", "Sy"), timeout=3000),
                kalman_case(1, 1, 3, timeout=3000),
                kalman_case(2, 2, 2, concrete=("A", "Q", "C", "R", "S0"), timeout=3000),
                kalman_case(2, 1, 3, concrete=("A", "Q", "C", "R", "S0"), timeout=3000),
                kalman_case(2, 1, 2, concrete=("Q", "C", "R", "S0"), timeout=3000),
                regression_case(1, 2, 2, concrete=("Sy",), timeout=3000),
                kalman_case(2, 1, 2, concrete=("A", "Q", "C", "S0"), timeout=3000),
                kalman_case(2, 1, 12, concrete=("A", "Q", "C", "R", "S0"), timeout=3000),
                kalman_case(2, 2, 8, concrete=("A", "Q", "C", "R", "S0"), timeout=3000),
                kalman_case(3, 2, 6, concrete=("A", "Q", "C", "R", "S0"), timeout=3000)]
    return out
