"""C04: cached covariance, log-determinants, mean and log-partition always match.

Instead of exploring operation sequences: ONE step of every public operation from an ARBITRARY
consistent pre-state (symbolic parameters; caches absent / supplied consistently / populated by a
read-only query), asserting the invariant on the result and again after a lazy query on the result.
Invariant & step => invariant for histories of any length.  'No result depends on prior read-only
queries': the same step from the cache-cold and the cache-warm pre-state must give equal results."""
from fractions import Fraction
import numpy as np

from ..case import Case
from .. import spec
from .common import (gt, fields, invariant_claims, declare_factor, make_factor, factor_spec_params, make_cond, spec_eval_ln)
from .condprops import cond_decl, prior_decl, make_prior
from .c02 import _inv_of, _lndet_of

PROP = "C04"
EXTRA_DRAWS = 0      # the thorough tier of this property is long already: no additional draws of the generic rationals

BOUNDS = {
    "quick": "one step of: multiply / hadamard by every factor kind (update_full on/off), product, slice, update, normalize, get_density, get_marginal, condition_on, cond(x), update_Sigma, and the three affine transformations of every conditional kind; pre-state caches absent / supplied / populated by a query; D=2, R<=2, (Dx,Dy) in {(1,1),(2,1),(1,2)}; fully symbolic",
    "thorough": "72 fixed operation sequences of length 3-8; adds D=3 products with rank-one updates, R=3, (2,2) transformations semi-symbolic",
}
ASSUMPTIONS = ["histories are covered by induction over one step from an arbitrary consistent pre-state, not by enumerating sequences; a counterexample from a pre-state no history reaches would mean the invariant is too weak (none occurred)"]

PRE = ("cold", "supplied", "queried")


def _measure(A, pre, D, R, name="u_"):
    factor, measure, pdf, conditional = gt()
    if pre == "supplied":
        # covariance cache handed to the constructor, consistent with the precision (Lambda = S^-1)
        u = measure.GaussianMeasure(Lambda=A[name + "Lam"], nu=A[name + "nu"], ln_beta=A[name + "lb"], Sigma=A[name + "S"],
                                    ln_det_Sigma=A[name + "ld"], ln_det_Lambda=-A[name + "ld"])
    else:
        u = measure.GaussianMeasure(Lambda=A[name + "Lam"], nu=A[name + "nu"], ln_beta=A[name + "lb"])
        if pre == "queried":
            u.integrate("x")
            u.log_integral_light()
    return u


def _declare_measure(b, D, R, name="u_"):
    b.spd(name + "S", R, D)
    b.derived(name + "Lam", (R, D, D), _inv_of(name + "S", R, D))
    b.derived(name + "ld", (R,), _lndet_of(name + "S", R))
    b.free(name + "nu", (R, D)); b.free(name + "lb", (R,))


def product_case(entry, fkind, update_full, pre, D, R1, R2, timeout=400, ukind="measure"):
    """ukind: class of the left operand -- measure | diagmeasure | diagpdf (a diagonal operand times a factor with a
    non-diagonal precision is NOT diagonal: the lazily inverted result must be a full inverse)"""
    cid = f"C04/{entry}/{fkind}/uf{int(update_full)}/{pre}/D{D}R{R1}x{R2}" + ("" if ukind == "measure" else f"/u-{ukind}")
    cfg = dict(op=entry, factor=fkind, update_full=update_full, pre_state=pre, D=D, R1=R1, R2=R2, left_operand=ukind)

    def declare(b):
        if ukind == "measure":
            _declare_measure(b, D, R1)
        else:
            declare_factor(b, ukind, "u_", R1, D)
        if entry != "product":
            declare_factor(b, fkind, "f_", R2, D)

    def fn(**A):
        if ukind == "measure":
            u = _measure(A, pre, D, R1)
        else:
            u = make_factor(ukind, "u_", A, D)
            if pre == "queried":
                u.integrate("x"); u.log_integral_light()
        if entry == "product":
            r = u.product()
        else:
            f = make_factor(fkind, "f_", A, D)
            r = u.multiply(f, update_full=update_full) if entry == "multiply" else u.hadamard(f, update_full=update_full)
        out = {"r": fields(r)}
        r.log_integral()
        r.integrate("x")
        out["r_after_query"] = fields(r)
        out["u_after"] = fields(u)
        return out

    def claims(I, O, ops):
        cl = invariant_claims(ops, O["r"], f"{entry} result")
        cl += invariant_claims(ops, O["r_after_query"], f"{entry} result after a read-only query")
        cl += invariant_claims(ops, O["u_after"], "operand after the call")
        return cl

    return Case(cid, PROP, cfg, declare, fn, claims, timeout=timeout)


def warmcold_case(entry, fkind, update_full, D, R1, R2, timeout=400):
    cid = f"C04/warm-vs-cold/{entry}/{fkind}/uf{int(update_full)}/D{D}R{R1}x{R2}"
    cfg = dict(op=entry, factor=fkind, update_full=update_full, what="results from cache-warm and cache-cold operands agree", D=D, R1=R1, R2=R2)

    def declare(b):
        _declare_measure(b, D, R1)
        declare_factor(b, fkind, "f_", R2, D)
        b.free("x", (1, D))

    def fn(**A):
        outs = []
        for pre in ("cold", "queried", "supplied"):
            u = _measure(A, pre, D, R1)
            f = make_factor(fkind, "f_", A, D)
            if pre == "queried":
                u.evaluate_ln(A["x"]); u.get_density()
                if hasattr(f, "integrate"):
                    f.integrate()
            r = u.multiply(f, update_full=update_full) if entry == "multiply" else u.hadamard(f, update_full=update_full)
            outs.append({"eval": r.evaluate_ln(A["x"]), "logint": r.log_integral(), "Exx": r.integrate("xx'"), "f": fields(r)})
        return outs

    def claims(I, O, ops):
        cl = []
        for k, nm in ((1, "queried"), (2, "supplied")):
            for key in ("eval", "logint", "Exx"):
                cl.append((f"{entry}: {key} from the {nm} operand = from the cold operand", O[k][key], O[0][key]))
            for fk in ("Lambda", "nu", "ln_beta", "Sigma", "ln_det_Sigma", "mu", "lnZ"):
                if O[0]["f"].get(fk) is not None and O[k]["f"].get(fk) is not None:
                    cl.append((f"{entry}: field {fk} from the {nm} operand = from the cold operand", O[k]["f"][fk], O[0]["f"][fk]))
        return cl

    return Case(cid, PROP, cfg, declare, fn, claims, timeout=timeout)


def pdf_op_case(op, kind, D, R, timeout=400):
    cid = f"C04/{op}/{kind}/D{D}R{R}"
    cfg = dict(op=op, density=kind, D=D, R=R)
    diag = kind == "diagpdf"

    def declare(b):
        (b.diag if diag else b.spd)("S", R, D); b.free("mu", (R, D))
        if op == "update":
            (b.diag if diag else b.spd)("S2", 1, D); b.free("mu2", (1, D))
        if op in ("normalize", "get_density"):
            b.free("nu", (R, D)); b.free("lb", (R,))
        if op == "cond_x":
            b.free("xb", (2, 1))

    def fn(**A):
        import jax.numpy as jnp
        factor, measure, pdf, conditional = gt()
        cls = pdf.GaussianDiagPDF if diag else pdf.GaussianPDF
        out = {}
        if op in ("normalize", "get_density"):
            mcls = measure.GaussianDiagMeasure if diag else measure.GaussianMeasure
            u = mcls(Lambda=A["S"], nu=A["nu"], ln_beta=A["lb"])
            if op == "normalize":
                u.normalize()
                out["r"] = fields(u)
                u.integrate("x")
                out["r2"] = fields(u)
            else:
                d = u.get_density()
                out["r"] = fields(d)
                out["r2"] = fields(u)
            return out
        p = cls(Sigma=A["S"], mu=A["mu"])
        if op == "ctor":
            out["r"] = fields(p)
        elif op == "slice":
            out["r"] = fields(p.slice(jnp.array([R - 1, 0])))
        elif op == "update":
            p.update(jnp.array([R - 1]), cls(Sigma=A["S2"], mu=A["mu2"]))
            out["r"] = fields(p)
        elif op == "get_marginal":
            out["r"] = fields(p.get_marginal(jnp.array([D - 1, 0]) if D > 2 else jnp.array([D - 1])))
        elif op == "condition_on":
            c = p.condition_on(jnp.array([D - 1]))
            out["c"] = {"Lambda": c.Lambda, "Sigma": c.Sigma, "ln_det_Sigma": c.ln_det_Sigma}
        elif op == "cond_x":
            c = p.condition_on(jnp.array([D - 1]))
            out["r"] = fields(c(A["xb"]))
        elif op == "measure_slice":
            u = measure.GaussianMeasure(Lambda=A["S"], nu=A["mu"])
            u.integrate()
            out["r"] = fields(u.slice(jnp.array([0, R - 1, 0])))
        return out

    def claims(I, O, ops):
        cl = []
        for k in ("r", "r2"):
            if k in O:
                cl += invariant_claims(ops, O[k], f"{op} ({k})")
        if "c" in O:
            cl += invariant_claims(ops, O["c"], f"{op} conditional")
        return cl

    return Case(cid, PROP, cfg, declare, fn, claims, timeout=timeout)


def trans_case(tr, kind, Dx, Dy, Rc, Rx, semi=(), timeout=600):
    cid = f"C04/{tr}/{kind}/Dx{Dx}Dy{Dy}/Rc{Rc}Rx{Rx}" + ("/semi-" + "-".join(semi) if semi else "")
    cfg = dict(op=tr, conditional=kind, Dx=Dx, Dy=Dy, R_cond=Rc, R_x=Rx, concrete_blocks=list(semi))

    def declare(b):
        cond_decl(b, kind, Rc, Dy, Dx, semi)
        if tr != "update_Sigma":
            prior_decl(b, Rx, Dx, semi)
        else:
            (b.diag if "diag" in kind else b.spd)("Snew", Rc, Dy)

    def fn(**A):
        factor, measure, pdf, conditional = gt()
        c = make_cond(kind, "c_", A, Dy, Dx)
        out = {"c0": {"Lambda": c.obj.Lambda, "Sigma": c.obj.Sigma, "ln_det_Sigma": c.obj.ln_det_Sigma}}
        if tr == "update_Sigma":
            c.obj.update_Sigma(A["Snew"])
            out["c"] = {"Lambda": c.obj.Lambda, "Sigma": c.obj.Sigma, "ln_det_Sigma": c.obj.ln_det_Sigma}
            return out
        px = make_prior(A)
        if tr == "joint":
            out["r"] = fields(c.affine_joint_transformation(px))
        elif tr == "marginal":
            out["r"] = fields(c.affine_marginal_transformation(px))
        else:
            q = c.affine_conditional_transformation(px)
            out["c"] = {"Lambda": q.Lambda, "Sigma": q.Sigma, "ln_det_Sigma": q.ln_det_Sigma}
        return out

    def claims(I, O, ops):
        cl = invariant_claims(ops, O["c0"], "conditional as constructed")
        if "r" in O:
            cl += invariant_claims(ops, O["r"], f"{tr} result")
        if "c" in O:
            cl += invariant_claims(ops, O["c"], f"{tr} result")
        return cl

    return Case(cid, PROP, cfg, declare, fn, claims, timeout=timeout)


# ------------------------------------------------------------------------------------------ histories
HIST_FACTORS = ["conjugate", "onerank", "linear", "constant", "measure", "pdf"]
HIST_QUERIES = ["integrate_x", "log_integral", "log_integral_light", "evaluate_ln", "get_density", "integrate_xx", "integral_light"]


def gen_history(rng, length, D=2):
    """a seeded random sequence of public operations (each op: tuple); R is tracked so that every op is legal"""
    R = rng.choice([1, 2])
    R0 = R
    seq = []
    nf = 0
    while len(seq) < length:
        kind = rng.choice(["mul", "mul", "had", "had", "query", "query", "slice", "normalize", "density", "product", "mulR"])
        if kind == "mul":
            seq.append(("mul", rng.choice(HIST_FACTORS), rng.random() < 0.5, 1, nf)); nf += 1
        elif kind == "mulR":
            if R != 1:
                continue
            seq.append(("mul", rng.choice(HIST_FACTORS), rng.random() < 0.5, 2, nf)); nf += 1
            R = 2
        elif kind == "had":
            seq.append(("had", rng.choice(HIST_FACTORS), rng.random() < 0.5, rng.choice([1, R]), nf)); nf += 1
        elif kind == "query":
            seq.append(("query", rng.choice(HIST_QUERIES)))
        elif kind == "slice":
            idx = [rng.randrange(-R, R) for _ in range(rng.choice([1, 2]))]
            seq.append(("slice", tuple(idx)))
            R = len(idx)
        elif kind == "normalize":
            seq.append(("normalize",))
        elif kind == "density":
            seq.append(("density",))
        elif kind == "product":
            if R == 1:
                continue
            seq.append(("product",)); R = 1
    return R0, seq


def _seq_name(seq):
    out = []
    for op in seq:
        if op[0] in ("mul", "had"):
            out.append(f"{op[0]}-{op[1][:4]}{'F' if op[2] else 'L'}{op[3]}")
        elif op[0] == "query":
            out.append("q-" + op[1].replace("integrate_", "i").replace("log_integral", "li").replace("evaluate_ln", "ev").replace("get_density", "gd").replace("integral_light", "il"))
        elif op[0] == "slice":
            out.append("sl" + "".join(str(i) for i in op[1]).replace("-", "m"))
        else:
            out.append(op[0][:4])
    return ".".join(out)


def history_case(R0, seq, D=2, tag="", timeout=900, semi_after=99):
    """a HISTORY: the sequence is executed on the real objects twice -- with and without the read-only queries -- and
    (i) the cache invariant is asserted on the object after EVERY step, (ii) the final object evaluates to the function
    obtained by tracking the definition (natural parameters add; normalising subtracts the log-mass), (iii) its
    log-integral is the Gaussian mass of that function, (iv) the two executions agree."""
    cid = f"C04/history/{tag}R{R0}/{_seq_name(seq)}"
    cfg = dict(op="history", D=D, R0=R0, sequence=[list(map(str, o)) for o in seq], length=len(seq))

    def declare(b):
        _declare_measure(b, D, R0)
        for op in seq:
            if op[0] in ("mul", "had"):
                _, fk, uf, Rf, k = op
                if k >= semi_after:
                    _declare_const_factor(b, fk, f"f{k}_", Rf, D)
                else:
                    declare_factor(b, fk, f"f{k}_", Rf, D)
        b.free("x", (1, D))

    def run(A, with_queries):
        import jax.numpy as jnp
        u = _measure(A, "cold", D, R0)
        snaps = []
        for op in seq:
            if op[0] in ("mul", "had"):
                _, fk, uf, Rf, k = op
                f = make_factor(fk, f"f{k}_", A, D)
                u = u.multiply(f, update_full=uf) if op[0] == "mul" else u.hadamard(f, update_full=uf)
            elif op[0] == "query":
                if not with_queries:
                    continue
                q = op[1]
                if q == "integrate_x": u.integrate("x")
                elif q == "integrate_xx": u.integrate("xx'")
                elif q == "log_integral": u.log_integral()
                elif q == "log_integral_light": u.log_integral_light()
                elif q == "integral_light": u.integral_light()
                elif q == "evaluate_ln": u.evaluate_ln(A["x"])
                elif q == "get_density": u.get_density()
            elif op[0] == "slice":
                u = u.slice(jnp.array(list(op[1])))
            elif op[0] == "normalize":
                u.normalize()
            elif op[0] == "density":
                u = u.get_density()
            elif op[0] == "product":
                u = u.product()
            snaps.append(fields(u))
        return {"snaps": snaps, "eval": u.evaluate_ln(A["x"]), "logint": u.log_integral(), "Ex": u.integrate("x"), "final": fields(u)}

    def fn(**A):
        return {"q": run(A, True), "nq": run(A, False)}

    def claims(I, O, ops):
        cl = []
        # spec tracking
        L, nu, lb = I["u_Lam"], I["u_nu"], I["u_lb"]
        R = R0
        for op in seq:
            if op[0] in ("mul", "had"):
                _, fk, uf, Rf, k = op
                Lf, nuf, lbf = factor_spec_params(ops, fk, f"f{k}_", I, Rf, D)
                if op[0] == "mul":
                    Ln = ops.zeros((R * Rf, D, D)); nn = ops.zeros((R * Rf, D)); ln_ = ops.zeros((R * Rf,))
                    for i in range(R):
                        for j in range(Rf):
                            Ln[i * Rf + j] = L[i] + Lf[j]; nn[i * Rf + j] = nu[i] + nuf[j]; ln_[i * Rf + j] = lb[i] + lbf[j]
                    R = R * Rf
                else:
                    Rn = max(R, Rf)
                    Ln = ops.zeros((Rn, D, D)); nn = ops.zeros((Rn, D)); ln_ = ops.zeros((Rn,))
                    for i in range(Rn):
                        a, c = (i if R > 1 else 0), (i if Rf > 1 else 0)
                        Ln[i] = L[a] + Lf[c]; nn[i] = nu[a] + nuf[c]; ln_[i] = lb[a] + lbf[c]
                    R = Rn
                L, nu, lb = Ln, nn, ln_
            elif op[0] == "slice":
                idx = [i % R for i in op[1]]
                L, nu, lb = L[idx], nu[idx], lb[idx]
                R = len(idx)
            elif op[0] in ("normalize", "density"):
                lb2 = ops.zeros((R,))
                for r in range(R):
                    lb2[r] = lb[r] - spec.ln_mass(ops, L[r], nu[r], lb[r])
                lb = lb2
            elif op[0] == "product":
                L = np.sum(L, axis=0)[None]; nu = np.sum(nu, axis=0)[None]
                s0 = ops.zero()
                for r in range(R):
                    s0 = s0 + lb[r]
                lb = np.array([s0], dtype=object)
                R = 1
        x = I["x"]
        want = spec_eval_ln(ops, (L, nu, lb), x)
        mass = ops.zeros((R,))
        for r in range(R):
            mass[r] = spec.ln_mass(ops, L[r], nu[r], lb[r])
        for tagq in ("q", "nq"):
            nm = "with queries" if tagq == "q" else "without queries"
            for k, F in enumerate(O[tagq]["snaps"]):
                cl += invariant_claims(ops, F, f"history ({nm}) after step {k + 1}")
            cl += invariant_claims(ops, O[tagq]["final"], f"history ({nm}) final object after integrals")
            cl.append((f"history ({nm}): final evaluate_ln = tracked definition", O[tagq]["eval"], want))
            cl.append((f"history ({nm}): final log_integral = Gaussian mass of the tracked definition", O[tagq]["logint"], mass))
        for key in ("eval", "logint", "Ex"):
            cl.append((f"history: {key} does not depend on the read-only queries made on the way", O["q"][key], O["nq"][key]))
        return cl

    return Case(cid, PROP, cfg, declare, fn, claims, timeout=timeout)


def _declare_const_factor(b, kind, pre, R, D):
    """semi-symbolic factor (generic rationals) for long histories"""
    if kind in ("conjugate", "measure"):
        b.const(pre + "L", b.rat_spd(R, D)); b.const(pre + "nu", b.rat_array((R, D))); b.const(pre + "lb", b.rat_array((R,)))
    elif kind == "onerank":
        b.const(pre + "v", b.rat_array((R, D), nonzero=True)); b.const(pre + "g", np.array([b.rng.choice([Fraction(1, 2), Fraction(1), Fraction(3, 2)]) for _ in range(R)], dtype=object))
        b.const(pre + "nu", b.rat_array((R, D))); b.const(pre + "lb", b.rat_array((R,)))
    elif kind == "linear":
        b.const(pre + "nu", b.rat_array((R, D))); b.const(pre + "lb", b.rat_array((R,)))
    elif kind == "constant":
        b.const(pre + "lb", b.rat_array((R,)))
    elif kind == "pdf":
        b.const(pre + "S", b.rat_spd(R, D)); b.const(pre + "mu", b.rat_array((R, D)))
    else:
        raise ValueError(kind)


# sequences of the fixed quick list that need more than ~25 s (measured) are left to the thorough tier
QUICK_SLOW = {"mul-pdfL1.q-li_light.mul-conjL2", "mul-conjF2.q-gd.had-conjF1.had-lineL1.had-onerL2", "had-onerL1.had-onerF2.mul-lineL1.had-onerF1",
              "norm.q-ix.mul-onerF1.mul-onerF1.mul-lineF1", "norm.q-ev.dens.mul-measF2.mul-pdfL1", "slm10.had-measL2.had-onerL2.norm"}


# sequences of the fixed thorough list that do not finish in 30 minutes (a density as factor, inverted lazily, then a product): measured
THOROUGH_SKIP = {"mul-pdfL1.prod.mul-conjF1", "mul-pdfL1.had-consF2.norm.slm10.had-measF1.prod.q-ev.dens"}


def history_cases(tier, seed):
    """The sequences are drawn from FIXED generator seeds (not VERIF_SEED), so that the set of harnesses -- and their cost,
    which varies by orders of magnitude between sequences -- is the same on every run; VERIF_SEED still selects the
    self-check points and the generic rationals of the semi-symbolic factors."""
    import random
    out = []
    rng = random.Random(1000)
    n, lens = (24, (3, 4, 5)) if tier == "quick" else (24 + 48, (3, 4, 5, 6, 7, 8))
    seen = set()
    while len(out) < n:
        if len(out) == 24:
            rng = random.Random(2000)
            lens = (3, 4, 5, 6, 7, 8)
        ln = rng.choice((3, 4, 5) if len(out) < 24 else lens)
        R0, seq = gen_history(rng, ln)
        nm = (R0, _seq_name(seq))
        if nm in seen or not any(o[0] in ("mul", "had") for o in seq):
            continue
        seen.add(nm)
        out.append(history_case(R0, seq, semi_after=2 if ln <= 5 else 1, timeout=900 if tier == "quick" else 1800))
    if tier == "quick":
        out = [c for c in out if c.id.split("/", 3)[-1] not in QUICK_SLOW]
    else:
        out = [c for c in out if c.id.split("/", 3)[-1] not in THOROUGH_SKIP]
    return out


def cases(tier, seed=0):
    out = []
    fk = ["conjugate", "onerank", "linear", "constant", "measure", "pdf"]
    for f in fk:
        for pre in PRE:
            for uf in (True, False):
                out.append(product_case("multiply", f, uf, pre, 2, 2, 2))
                out.append(product_case("hadamard", f, uf, pre, 2, 2, 2 if f in ("conjugate", "onerank", "measure", "pdf") else 2))
        for uf in (True, False):
            out.append(warmcold_case("multiply", f, uf, 2, 2, 1))
            out.append(warmcold_case("hadamard", f, uf, 2, 2, 2))
    for pre in PRE:
        out.append(product_case("product", "-", False, pre, 2, 3, 0))
    # diagonal left operands with factors whose precision is not diagonal (both the eager and the lazy inversion route)
    for uk in ("diagmeasure", "diagpdf"):
        for f in ("conjugate", "onerank", "measure", "pdf", "linear"):
            for uf in (False, True):
                out.append(product_case("multiply", f, uf, "cold", 2, 2, 1, ukind=uk))
                out.append(product_case("hadamard", f, uf, "queried", 2, 2, 2, ukind=uk))
    if tier == "thorough":
        for pre in PRE:
            out.append(product_case("multiply", "onerank", True, pre, 3, 1, 2, timeout=1800))
            out.append(product_case("hadamard", "onerank", True, pre, 3, 2, 2, timeout=1800))
            out.append(product_case("multiply", "onerank", True, pre, 2, 3, 2, timeout=1800))
            out.append(product_case("multiply", "linear", True, pre, 3, 2, 3, timeout=1800))
    for kind in ("pdf", "diagpdf"):
        for op in ("ctor", "slice", "update", "get_marginal", "normalize", "get_density"):
            out.append(pdf_op_case(op, kind, 2, 2))
        if tier == "thorough":
            for op in ("ctor", "slice", "get_marginal"):
                out.append(pdf_op_case(op, kind, 3, 2, timeout=1200))
    for op in ("condition_on", "cond_x", "measure_slice"):
        out.append(pdf_op_case(op, "pdf", 2, 2))
        out.append(pdf_op_case(op, "pdf", 3, 1, timeout=900)) if op != "measure_slice" else None
    out = [c for c in out if c is not None]
    batches = [(1, 1), (1, 2), (2, 1)]
    for kind in ("full", "diag", "identity", "identitydiag", "nncontrol"):
        ident = kind.startswith("identity")
        for (Dx, Dy) in ([(1, 1), (2, 2)] if ident else [(1, 1), (2, 1), (1, 2)]):
            for (Rc, Rx) in batches:
                if kind == "nncontrol" and Rc > 2:
                    continue
                for tr in ("joint", "marginal", "conditional"):
                    semi = ("Sx",) if (Dx, Dy) == (2, 2) else ()
                    out.append(trans_case(tr, kind, Dx, Dy, Rc, Rx, semi=semi))
            if kind != "nncontrol":
                out.append(trans_case("update_Sigma", kind, Dx, Dy, 2, 1))
        if tier == "thorough" and not ident:
            for (Rc, Rx) in batches:
                if kind == "nncontrol" and Rc > 2:
                    continue
                for tr in ("joint", "marginal", "conditional"):
                    out.append(trans_case(tr, kind, 2, 2, Rc, Rx, semi=("Sx", "Sy"), timeout=1800))
                    out.append(trans_case(tr, kind, 2, 2, Rc, Rx, semi=("M", "Sx"), timeout=1800))
    # heteroscedastic conditionals conditioned on x (A square, and A wide: see known findings)
    # constructor / history / prior variants of the conditional (precision only; covariance and precision together; after
    # update_Sigma; diagonal prior; prior from covariance and precision)
    from .condprops import CTOR_VARIANTS
    for kind in ("full", "diag", "identity", "identitydiag", "nncontrol"):
        for var in CTOR_VARIANTS:
            if kind == "nncontrol" and var in (("viaL",), ("viaSL",)):
                continue
            dd = (2, 2) if kind.startswith("identity") else (1, 2)
            for tr in ("joint", "marginal", "conditional"):
                out.append(trans_case(tr, kind, dd[0], dd[1], 2, 1, semi=var + (("Sx",) if dd == (2, 2) else ())))
    out += history_cases(tier, seed)
    from .c17 import coherence_case
    for link, signs in (("exp", None), ("cosh", None), ("step", [1]), ("relu", [1])):
        for (Dx, Dy, Da, Dk) in ((1, 1, 1, 1), (2, 2, 2, 1), (1, 1, 2, 1)):
            out.append(coherence_case(link, Dx, Dy, Da, Dk, signs=signs, prop=PROP))
        out.append(coherence_case(link, 1, 2, 2, 2, signs=([1, 1] if signs else None), prop=PROP))      # two noise units
        out.append(coherence_case(link, 1, 2, 2, 1, signs=signs, prop=PROP, explicit_Sigma=True))
    return out
