"""C04: cached covariance, log-determinants, mean and log-partition always match.

Instead of exploring operation sequences: ONE step of every public operation from an ARBITRARY
consistent pre-state (symbolic parameters; caches absent / supplied consistently / populated by a
read-only query), asserting the invariant on the result and again after a lazy query on the result.
Invariant & step => invariant for histories of any length.  'No result depends on prior read-only
queries': the same step from the cache-cold and the cache-warm pre-state must give equal results."""
from fractions import Fraction
import numpy as np

from ..case import Case
from .. import spec
from .common import (gt, fields, invariant_claims, declare_factor, make_factor, factor_spec_params, make_cond)
from .condprops import cond_decl, prior_decl
from .c02 import _inv_of, _lndet_of

PROP = "C04"

BOUNDS = {
    "quick": "one step of: multiply / hadamard by every factor kind (update_full on/off), product, slice, update, normalize, get_density, get_marginal, condition_on, cond(x), update_Sigma, and the three affine transformations of every conditional kind; pre-state caches absent / supplied / populated by a query; D=2, R<=2, (Dx,Dy) in {(1,1),(2,1),(1,2)}; fully symbolic",
    "thorough": "adds D=3 products with rank-one updates, R=3, (2,2) transformations semi-symbolic",
}
ASSUMPTIONS = ["histories are covered by induction over one step from an arbitrary consistent pre-state, not by enumerating sequences; a counterexample from a pre-state no history reaches would mean the invariant is too weak (none occurred)"]

PRE = ("cold", "supplied", "queried")


def _measure(A, pre, D, R, name="u_"):
    factor, measure, pdf, conditional = gt()
    if pre == "supplied":
        # covariance cache handed to the constructor, consistent with the precision (Lambda = S^-1)
        u = measure.GaussianMeasure(Lambda=A[name + "Lam"], nu=A[name + "nu"], ln_beta=A[name + "lb"], Sigma=A[name + "S"],
                                    ln_det_Sigma=A[name + "ld"], ln_det_Lambda=-A[name + "ld"])
    else:
        u = measure.GaussianMeasure(Lambda=A[name + "Lam"], nu=A[name + "nu"], ln_beta=A[name + "lb"])
        if pre == "queried":
            u.integrate("x")
            u.log_integral_light()
    return u


def _declare_measure(b, D, R, name="u_"):
    b.spd(name + "S", R, D)
    b.derived(name + "Lam", (R, D, D), _inv_of(name + "S", R, D))
    b.derived(name + "ld", (R,), _lndet_of(name + "S", R))
    b.free(name + "nu", (R, D)); b.free(name + "lb", (R,))


def product_case(entry, fkind, update_full, pre, D, R1, R2, timeout=400):
    cid = f"C04/{entry}/{fkind}/uf{int(update_full)}/{pre}/D{D}R{R1}x{R2}"
    cfg = dict(op=entry, factor=fkind, update_full=update_full, pre_state=pre, D=D, R1=R1, R2=R2)

    def declare(b):
        _declare_measure(b, D, R1)
        if entry != "product":
            declare_factor(b, fkind, "f_", R2, D)

    def fn(**A):
        u = _measure(A, pre, D, R1)
        if entry == "product":
            r = u.product()
        else:
            f = make_factor(fkind, "f_", A, D)
            r = u.multiply(f, update_full=update_full) if entry == "multiply" else u.hadamard(f, update_full=update_full)
        out = {"r": fields(r)}
        r.log_integral()
        r.integrate("x")
        out["r_after_query"] = fields(r)
        out["u_after"] = fields(u)
        return out

    def claims(I, O, ops):
        cl = invariant_claims(ops, O["r"], f"{entry} result")
        cl += invariant_claims(ops, O["r_after_query"], f"{entry} result after a read-only query")
        cl += invariant_claims(ops, O["u_after"], "operand after the call")
        return cl

    return Case(cid, PROP, cfg, declare, fn, claims, timeout=timeout)


def warmcold_case(entry, fkind, update_full, D, R1, R2, timeout=400):
    cid = f"C04/warm-vs-cold/{entry}/{fkind}/uf{int(update_full)}/D{D}R{R1}x{R2}"
    cfg = dict(op=entry, factor=fkind, update_full=update_full, what="results from cache-warm and cache-cold operands agree", D=D, R1=R1, R2=R2)

    def declare(b):
        _declare_measure(b, D, R1)
        declare_factor(b, fkind, "f_", R2, D)
        b.free("x", (1, D))

    def fn(**A):
        outs = []
        for pre in ("cold", "queried", "supplied"):
            u = _measure(A, pre, D, R1)
            f = make_factor(fkind, "f_", A, D)
            if pre == "queried":
                u.evaluate_ln(A["x"]); u.get_density()
                if hasattr(f, "integrate"):
                    f.integrate()
            r = u.multiply(f, update_full=update_full) if entry == "multiply" else u.hadamard(f, update_full=update_full)
            outs.append({"eval": r.evaluate_ln(A["x"]), "logint": r.log_integral(), "Exx": r.integrate("xx'"), "f": fields(r)})
        return outs

    def claims(I, O, ops):
        cl = []
        for k, nm in ((1, "queried"), (2, "supplied")):
            for key in ("eval", "logint", "Exx"):
                cl.append((f"{entry}: {key} from the {nm} operand = from the cold operand", O[k][key], O[0][key]))
            for fk in ("Lambda", "nu", "ln_beta", "Sigma", "ln_det_Sigma", "mu", "lnZ"):
                if O[0]["f"].get(fk) is not None and O[k]["f"].get(fk) is not None:
                    cl.append((f"{entry}: field {fk} from the {nm} operand = from the cold operand", O[k]["f"][fk], O[0]["f"][fk]))
        return cl

    return Case(cid, PROP, cfg, declare, fn, claims, timeout=timeout)


def pdf_op_case(op, kind, D, R, timeout=400):
    cid = f"C04/{op}/{kind}/D{D}R{R}"
    cfg = dict(op=op, density=kind, D=D, R=R)
    diag = kind == "diagpdf"

    def declare(b):
        (b.diag if diag else b.spd)("S", R, D); b.free("mu", (R, D))
        if op == "update":
            (b.diag if diag else b.spd)("S2", 1, D); b.free("mu2", (1, D))
        if op in ("normalize", "get_density"):
            b.free("nu", (R, D)); b.free("lb", (R,))
        if op == "cond_x":
            b.free("xb", (2, 1))

    def fn(**A):
        import jax.numpy as jnp
        factor, measure, pdf, conditional = gt()
        cls = pdf.GaussianDiagPDF if diag else pdf.GaussianPDF
        out = {}
        if op in ("normalize", "get_density"):
            mcls = measure.GaussianDiagMeasure if diag else measure.GaussianMeasure
            u = mcls(Lambda=A["S"], nu=A["nu"], ln_beta=A["lb"])
            if op == "normalize":
                u.normalize()
                out["r"] = fields(u)
                u.integrate("x")
                out["r2"] = fields(u)
            else:
                d = u.get_density()
                out["r"] = fields(d)
                out["r2"] = fields(u)
            return out
        p = cls(Sigma=A["S"], mu=A["mu"])
        if op == "ctor":
            out["r"] = fields(p)
        elif op == "slice":
            out["r"] = fields(p.slice(jnp.array([R - 1, 0])))
        elif op == "update":
            p.update(jnp.array([R - 1]), cls(Sigma=A["S2"], mu=A["mu2"]))
            out["r"] = fields(p)
        elif op == "get_marginal":
            out["r"] = fields(p.get_marginal(jnp.array([D - 1, 0]) if D > 2 else jnp.array([D - 1])))
        elif op == "condition_on":
            c = p.condition_on(jnp.array([D - 1]))
            out["c"] = {"Lambda": c.Lambda, "Sigma": c.Sigma, "ln_det_Sigma": c.ln_det_Sigma}
        elif op == "cond_x":
            c = p.condition_on(jnp.array([D - 1]))
            out["r"] = fields(c(A["xb"]))
        elif op == "measure_slice":
            u = measure.GaussianMeasure(Lambda=A["S"], nu=A["mu"])
            u.integrate()
            out["r"] = fields(u.slice(jnp.array([0, R - 1, 0])))
        return out

    def claims(I, O, ops):
        cl = []
        for k in ("r", "r2"):
            if k in O:
                cl += invariant_claims(ops, O[k], f"{op} ({k})")
        if "c" in O:
            cl += invariant_claims(ops, O["c"], f"{op} conditional")
        return cl

    return Case(cid, PROP, cfg, declare, fn, claims, timeout=timeout)


def trans_case(tr, kind, Dx, Dy, Rc, Rx, semi=(), timeout=600):
    cid = f"C04/{tr}/{kind}/Dx{Dx}Dy{Dy}/Rc{Rc}Rx{Rx}" + ("/semi-" + "-".join(semi) if semi else "")
    cfg = dict(op=tr, conditional=kind, Dx=Dx, Dy=Dy, R_cond=Rc, R_x=Rx, concrete_blocks=list(semi))

    def declare(b):
        cond_decl(b, kind, Rc, Dy, Dx, semi)
        if tr != "update_Sigma":
            prior_decl(b, Rx, Dx, semi)
        else:
            (b.diag if "diag" in kind else b.spd)("Snew", Rc, Dy)

    def fn(**A):
        factor, measure, pdf, conditional = gt()
        c = make_cond(kind, "c_", A, Dy, Dx)
        out = {"c0": {"Lambda": c.obj.Lambda, "Sigma": c.obj.Sigma, "ln_det_Sigma": c.obj.ln_det_Sigma}}
        if tr == "update_Sigma":
            c.obj.update_Sigma(A["Snew"])
            out["c"] = {"Lambda": c.obj.Lambda, "Sigma": c.obj.Sigma, "ln_det_Sigma": c.obj.ln_det_Sigma}
            return out
        px = pdf.GaussianPDF(Sigma=A["Sx"], mu=A["mx"])
        if tr == "joint":
            out["r"] = fields(c.affine_joint_transformation(px))
        elif tr == "marginal":
            out["r"] = fields(c.affine_marginal_transformation(px))
        else:
            q = c.affine_conditional_transformation(px)
            out["c"] = {"Lambda": q.Lambda, "Sigma": q.Sigma, "ln_det_Sigma": q.ln_det_Sigma}
        return out

    def claims(I, O, ops):
        cl = invariant_claims(ops, O["c0"], "conditional as constructed")
        if "r" in O:
            cl += invariant_claims(ops, O["r"], f"{tr} result")
        if "c" in O:
            cl += invariant_claims(ops, O["c"], f"{tr} result")
        return cl

    return Case(cid, PROP, cfg, declare, fn, claims, timeout=timeout)


def cases(tier, seed=0):
    out = []
    fk = ["conjugate", "onerank", "linear", "constant", "measure", "pdf"]
    for f in fk:
        for pre in PRE:
            for uf in (True, False):
                out.append(product_case("multiply", f, uf, pre, 2, 2, 2))
                out.append(product_case("hadamard", f, uf, pre, 2, 2, 2 if f in ("conjugate", "onerank", "measure", "pdf") else 2))
        for uf in (True, False):
            out.append(warmcold_case("multiply", f, uf, 2, 2, 1))
            out.append(warmcold_case("hadamard", f, uf, 2, 2, 2))
    for pre in PRE:
        out.append(product_case("product", "-", False, pre, 2, 3, 0))
    if tier == "thorough":
        for pre in PRE:
            out.append(product_case("multiply", "onerank", True, pre, 3, 1, 2, timeout=1800))
            out.append(product_case("hadamard", "onerank", True, pre, 3, 2, 2, timeout=1800))
            out.append(product_case("multiply", "onerank", True, pre, 2, 3, 2, timeout=1800))
            out.append(product_case("multiply", "linear", True, pre, 3, 2, 3, timeout=1800))
    for kind in ("pdf", "diagpdf"):
        for op in ("ctor", "slice", "update", "get_marginal", "normalize", "get_density"):
            out.append(pdf_op_case(op, kind, 2, 2))
        if tier == "thorough":
            for op in ("ctor", "slice", "get_marginal"):
                out.append(pdf_op_case(op, kind, 3, 2, timeout=1200))
    for op in ("condition_on", "cond_x", "measure_slice"):
        out.append(pdf_op_case(op, "pdf", 2, 2))
        out.append(pdf_op_case(op, "pdf", 3, 1, timeout=900)) if op != "measure_slice" else None
    out = [c for c in out if c is not None]
    batches = [(1, 1), (1, 2), (2, 1)]
    for kind in ("full", "diag", "identity", "identitydiag", "nncontrol"):
        ident = kind.startswith("identity")
        for (Dx, Dy) in ([(1, 1), (2, 2)] if ident else [(1, 1), (2, 1), (1, 2)]):
            for (Rc, Rx) in batches:
                if kind == "nncontrol" and Rc > 1:
                    continue
                for tr in ("joint", "marginal", "conditional"):
                    semi = ("Sx",) if (Dx, Dy) == (2, 2) else ()
                    out.append(trans_case(tr, kind, Dx, Dy, Rc, Rx, semi=semi))
            if kind != "nncontrol":
                out.append(trans_case("update_Sigma", kind, Dx, Dy, 2, 1))
        if tier == "thorough" and not ident:
            for (Rc, Rx) in batches:
                if kind == "nncontrol" and Rc > 1:
                    continue
                for tr in ("joint", "marginal", "conditional"):
                    out.append(trans_case(tr, kind, 2, 2, Rc, Rx, semi=("Sx", "Sy"), timeout=1800))
                    out.append(trans_case(tr, kind, 2, 2, Rc, Rx, semi=("M", "Sx"), timeout=1800))
    # heteroscedastic conditionals conditioned on x (A square, and A wide: see known findings)
    from .c17 import coherence_case
    for link, signs in (("exp", None), ("cosh", None), ("step", [1]), ("relu", [1])):
        for (Dx, Dy, Da, Dk) in ((1, 1, 1, 1), (2, 2, 2, 1), (1, 1, 2, 1)):
            out.append(coherence_case(link, Dx, Dy, Da, Dk, signs=signs, prop=PROP))
    return out
