"""C08: affine_marginal_transformation returns p(y) = int p(y|x) p(x) dx = N(M mu + b, Sigma_y + M Sigma_x M')."""
from .condprops import make_case, rotations, CTOR_VARIANTS

PROP = "C08"
EXTRA_DRAWS = 0      # the thorough tier of this property is long already: no additional draws of the generic rationals
KINDS = ["full", "diag", "identity", "identitydiag", "nncontrol"]

BOUNDS = {
    "quick": "fully symbolic for (Dx,Dy) in {(1,1),(2,1),(1,2)}; (2,2) semi-symbolic (two of the blocks M, Sigma_x, Sigma_y bound to generic rationals, rotated so each block is symbolic in some run); (R_cond,R_x) in {(1,1),(1,2),(2,1)}",
    "thorough": "adds (3,1),(1,3),(2,3),(3,2) semi-symbolic, (2,2) with a single concrete block, batches up to 3",
}
ASSUMPTIONS = ["NN-controlled conditional: control_func(u) = u P + q with symbolic u, P"]


def cases(tier, seed=0):
    out = []
    batches = [(1, 1), (1, 2), (2, 1)]
    for kind in KINDS:
        ident = kind.startswith("identity")
        dims = [(1, 1), (2, 2)] if ident else [(1, 1), (2, 1), (1, 2), (2, 2)]
        for (Dx, Dy) in dims:
            for (Rc, Rx) in batches:
                if kind == "nncontrol" and Rc > 2:
                    continue
                if (Dx, Dy) == (2, 2):
                    for semi in rotations(kind, 2):
                        out.append(make_case(PROP, "marginal", kind, Dx, Dy, Rc, Rx, semi=semi, timeout=400))
                else:
                    out.append(make_case(PROP, "marginal", kind, Dx, Dy, Rc, Rx, timeout=400))
        if tier == "thorough":
            if ident:
                for (Rc, Rx) in batches + [(1, 3), (3, 1)]:
                    for semi in rotations(kind, 1):
                        out.append(make_case(PROP, "marginal", kind, 2, 2, Rc, Rx, semi=semi, timeout=1200, extra="t"))
                    out.append(make_case(PROP, "marginal", kind, 3, 3, Rc, Rx, semi=("Sx",), timeout=1200))
            else:
                for (Dx, Dy) in [(3, 1), (1, 3), (2, 3), (3, 2)]:
                    for (Rc, Rx) in batches + [(1, 3), (3, 1)]:
                        if kind == "nncontrol" and Rc > 2:
                            continue
                        for semi in rotations(kind, 2):
                            out.append(make_case(PROP, "marginal", kind, Dx, Dy, Rc, Rx, semi=semi, timeout=1200))
                for (Rc, Rx) in batches:
                    if kind == "nncontrol" and Rc > 2:
                        continue
                    for semi in rotations(kind, 1):
                        out.append(make_case(PROP, "marginal", kind, 2, 2, Rc, Rx, semi=semi, timeout=1800, extra="t"))
    # constructor / history variants: built from the precision only; update_Sigma before the operation
    for kind in KINDS:
        dd = (2, 2) if kind.startswith("identity") else (2, 1)
        for var in CTOR_VARIANTS:
            if kind == "nncontrol" and var in (("viaL",), ("viaSL",)):
                continue
            sm = var + ((("Sx",) if dd == (2, 2) else ()))
            out.append(make_case(PROP, "marginal", kind, dd[0], dd[1], 1, 1, semi=sm, timeout=600))
            out.append(make_case(PROP, "marginal", kind, 1, 1, 2, 1, semi=var, timeout=600))
    return out
