"""C08: affine_marginal_transformation returns p(y) = int p(y|x) p(x) dx = N(M mu + b, Sigma_y + M Sigma_x M')."""
from .condprops import make_case, rotations, CTOR_VARIANTS

PROP = "C08"
EXTRA_DRAWS = 0      # the thorough tier of this property is long already: no additional draws of the generic rationals
KINDS = ["full", "diag", "identity", "identitydiag", "nncontrol"]

BOUNDS = {
    "quick": "fully symbolic for (Dx,Dy) in {(1,1),(2,1),(1,2)}; (2,2) semi-symbolic (two of the blocks M, Sigma_x, Sigma_y bound to generic rationals, rotated so each block is symbolic in some run); (R_cond,R_x) in {(1,1),(1,2),(2,1)}",
    "thorough": "adds (3,1),(1,3),(2,3),(3,2) semi-symbolic, (2,2) with a single concrete block, batches up to 3",
}
ASSUMPTIONS = ["NN-controlled conditional: control_func(u) = u P + q with symbolic u, P"]



def sliced_marginal_case(kind, Dx, Dy, idx, Rc=3, semi=(), timeout=600):
    """marginal transformation of a SLICED batch of conditionals (negative / repeated indices): the result must be the push-forward
    through the addressed components"""
    import numpy as np
    from ..case import Case
    from .. import spec
    from .common import make_cond, cond_spec_params, fields, gt
    from .condprops import cond_decl, prior_decl, make_prior
    cid = f"C08/marginal-of-slice/{kind}/Dx{Dx}Dy{Dy}/Rc{Rc}/idx{'_'.join(str(i).replace('-', 'm') for i in idx)}" + ("/semi-" + "-".join(semi) if semi else "")
    cfg = dict(what="marginal transformation after slice(idx)", conditional=kind, Dx=Dx, Dy=Dy, R_cond=Rc, idx=list(idx), concrete_blocks=list(semi))

    def declare(b):
        cond_decl(b, kind, Rc, Dy, Dx, semi); prior_decl(b, 1, Dx, semi); b.free("y", (1, Dy))

    def fn(**A):
        import jax.numpy as jnp
        c = make_cond(kind, "c_", A, Dy, Dx)
        cs = c.obj.slice(jnp.array(list(idx)))
        m = cs.affine_marginal_transformation(make_prior(A))
        return {"eval": m.evaluate_ln(A["y"]), "mu": m.mu, "Sigma": m.Sigma}

    def claims(I, O, ops):
        M, bb, S = cond_spec_params(ops, kind, "c_", I, Rc, Dy, Dx)
        n = len(idx)
        emu = ops.zeros((n, Dy)); eS = ops.zeros((n, Dy, Dy)); ev = ops.zeros((n, 1))
        for k, i in enumerate(idx):
            r = i % Rc
            emu[k] = spec.mv(M[r], I["mx"][0]) + bb[r]
            eS[k] = S[r] + spec.mm(spec.mm(M[r], I["Sx"][0]), M[r].T)
            ev[k, 0] = spec.logN(ops, I["y"][0], emu[k], eS[k])
        return [("marginal of slice(idx): mean", O["mu"], emu), ("marginal of slice(idx): covariance", O["Sigma"], eS), ("marginal of slice(idx): log-density", O["eval"], ev)]

    return Case(cid, PROP, cfg, declare, fn, claims, timeout=timeout)


def cases(tier, seed=0):
    out = []
    batches = [(1, 1), (1, 2), (2, 1)]
    for kind in KINDS:
        ident = kind.startswith("identity")
        dims = [(1, 1), (2, 2)] if ident else [(1, 1), (2, 1), (1, 2), (2, 2)]
        for (Dx, Dy) in dims:
            for (Rc, Rx) in batches:
                if kind == "nncontrol" and Rc > 2:
                    continue
                if (Dx, Dy) == (2, 2):
                    for semi in rotations(kind, 2):
                        out.append(make_case(PROP, "marginal", kind, Dx, Dy, Rc, Rx, semi=semi, timeout=400))
                else:
                    out.append(make_case(PROP, "marginal", kind, Dx, Dy, Rc, Rx, timeout=400))
        if tier == "thorough":
            if ident:
                for (Rc, Rx) in batches + [(1, 3), (3, 1)]:
                    for semi in rotations(kind, 1):
                        out.append(make_case(PROP, "marginal", kind, 2, 2, Rc, Rx, semi=semi, timeout=1200, extra="t"))
                    out.append(make_case(PROP, "marginal", kind, 3, 3, Rc, Rx, semi=("Sx",), timeout=1200))
            else:
                for (Dx, Dy) in [(3, 1), (1, 3)]:      # (2,3) / (3,2): the 5-dimensional joint these cases also build does not finish in 50 min (measured)
                    for (Rc, Rx) in batches + ([(1, 3), (3, 1)] if Dx + Dy <= 4 else []):
                        if kind == "nncontrol" and Rc > 2:
                            continue
                        # (a symbolic 3x3 noise covariance, or Dx+Dy=5 with a symbolic covariance block, needs 20-60 min per case: left out)
                        rots = [("Sx", "Sy")] if (Dy == 3 or Dx + Dy == 5) else rotations(kind, 2)
                        for semi in rots:
                            out.append(make_case(PROP, "marginal", kind, Dx, Dy, Rc, Rx, semi=semi, timeout=3000))
                for (Rc, Rx) in batches:
                    if kind == "nncontrol" and Rc > 2:
                        continue
                    for semi in rotations(kind, 1):
                        out.append(make_case(PROP, "marginal", kind, 2, 2, Rc, Rx, semi=semi, timeout=1800, extra="t"))
    for kind in ("full", "diag", "identity", "identitydiag"):
        d = (1, 1) if kind.startswith("identity") else (1, 2)
        out.append(sliced_marginal_case(kind, d[0], d[1], [-1, 0]))
        out.append(sliced_marginal_case(kind, d[0], d[1], [1, 1, -3]))
    # constructor / history variants: built from the precision only; update_Sigma before the operation
    for kind in KINDS:
        dd = (2, 2) if kind.startswith("identity") else (2, 1)
        for var in CTOR_VARIANTS:
            if kind == "nncontrol" and var in (("viaL",), ("viaSL",)):
                continue
            sm = var + ((("Sx",) if dd == (2, 2) else ()))
            out.append(make_case(PROP, "marginal", kind, dd[0], dd[1], 1, 1, semi=sm, timeout=600))
            out.append(make_case(PROP, "marginal", kind, 1, 1, 2, 1, semi=var, timeout=600))
    return out
