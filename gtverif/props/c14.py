"""C14: expected log-factor and expected log-conditional integrals are exact.

Oracles: Stein moments of the quadratic log-densities (linear kinds); for the feature models
(RBF / squared-exponential bumps) the expectation of ln N(y; M phi(x)+b, Sigma) under an ARBITRARY
Gaussian q is assembled from tilted-Gaussian expectations E_q[poly(z) exp(-z'Az/2 + a'z + c)] in
closed form (completing the square with adjugate inverses) -- no quadrature is needed."""
from fractions import Fraction
import numpy as np

from ..case import Case
from .. import spec
from .common import gt, declare_factor, make_factor, factor_spec_params, make_cond, cond_spec_params
from .condprops import cond_decl, prior_decl

PROP = "C14"

BOUNDS = {
    "quick": "log-factor: every factor kind, R_f in {1,R}, measure = density or unnormalised measure, D=2, R=2; linear conditionals (full, diag, identity, identity-diag, NN control): integrate_log_conditional with an arbitrary Gaussian q over (y,x), integrate_log_conditional_y as callable and with y, (Dx,Dy) in {(1,1),(2,1),(1,2)}; feature models LRBF / LSEM: Dx=1, Dk<=2, Dy<=2 (noise covariance concrete at Dk=Dy=2), q arbitrary",
    "thorough": "adds q with R=2, LRBF/LSEM with Dx=2, Dk=2 and Dy=2 (semi-symbolic where needed), (2,2) linear",
}
ASSUMPTIONS = ["feature models: p(y|x) = N(y; M (x, k_1(x)..k_n(x)) + b, Sigma) with k_i the library's bumps (RBF: exp(-sum_d ((x_d-s_id)/l_id)^2/2); squared exponential: exp(-(w_i'x - w_i0)^2/2), the library's sign convention); the same form is asserted against the object's own condition_on_x in C16"]


def logfactor_case(mkind, fkind, D, R, Rf, timeout=400):
    cid = f"C14/logfactor/{mkind}x{fkind}/D{D}R{R}Rf{Rf}"
    cfg = dict(op="integrate('log u(x)')", measure=mkind, factor=fkind, D=D, R=R, R_factor=Rf)

    def declare(b):
        declare_factor(b, mkind, "u_", R, D); declare_factor(b, fkind, "f_", Rf, D)

    def fn(**A):
        u = make_factor(mkind, "u_", A, D); f = make_factor(fkind, "f_", A, D)
        return {"val": u.integrate("log u(x)", factor=f)}

    def claims(I, O, ops):
        Lu, nuu, lbu = factor_spec_params(ops, mkind, "u_", I, R, D)
        Lf, nuf, lbf = factor_spec_params(ops, fkind, "f_", I, Rf, D)
        e = ops.zeros((R,))
        for r in range(R):
            rf = r if Rf > 1 else 0
            Sg, _ = spec.inv(ops, Lu[r]); mu = spec.mv(Sg, nuu[r])
            mass = ops.exp(spec.ln_mass(ops, Lu[r], nuu[r], lbu[r]))
            mom = spec.Moments(ops, mu, Sg)
            poly = spec.p_const(D, lbf[rf])
            for i in range(D):
                poly = spec.p_add(poly, spec.p_scale(spec.p_var(ops, D, i), nuf[rf][i]))
                for j in range(D):
                    poly = spec.p_add(poly, spec.p_scale(spec.p_mul(spec.p_var(ops, D, i), spec.p_var(ops, D, j)), ops.c(Fraction(-1, 2)) * Lf[rf][i, j]))
            e[r] = mass * mom.expect(poly)
        return [("integrate('log u(x)', f) = int ln f(x) u(x) dx", O["val"], e)]

    return Case(cid, PROP, cfg, declare, fn, claims, timeout=timeout)


def _lin_logpdf_poly(ops, M, bb, S, Dx, Dy, order):
    """ln N(y; Mx+b, S) as polynomial in z; order 'yx' -> z=(y,x), 'x' -> z = x with y given symbolic vector"""
    Li, d = spec.inv(ops, S)
    const = -ops.c(Fraction(1, 2)) * ops.lnabs(d) - ops.c(Fraction(Dy, 2)) * ops.ln2pi()
    return Li, const


def lincond_case(kind, Dx, Dy, Rq, semi=(), timeout=500):
    cid = f"C14/logcond/{kind}/Dx{Dx}Dy{Dy}/Rq{Rq}" + ("/semi-" + "-".join(semi) if semi else "")
    cfg = dict(op="integrate_log_conditional(q) / integrate_log_conditional_y(p_x)", conditional=kind, Dx=Dx, Dy=Dy, R_q=Rq, concrete_blocks=list(semi))
    D = Dx + Dy

    def declare(b):
        cond_decl(b, kind, 1, Dy, Dx, semi)
        if "Sq" in semi:
            b.const("Sq", b.rat_spd(Rq, D))
        else:
            b.spd("Sq", Rq, D)
        b.free("mq", (Rq, D))
        prior_decl(b, Rq, Dx, semi)
        b.free("y", (Rq, Dy))

    def fn(**A):
        factor, measure, pdf, conditional = gt()
        c = make_cond(kind, "c_", A, Dy, Dx)
        q = pdf.GaussianPDF(Sigma=A["Sq"], mu=A["mq"])
        px = pdf.GaussianPDF(Sigma=A["Sx"], mu=A["mx"])
        return {"ilc": c.integrate_log_conditional(q), "ilcy": c.integrate_log_conditional_y(px, y=A["y"]),
                "ilcy_callable": c.integrate_log_conditional_y(px)(A["y"])}

    def claims(I, O, ops):
        M, bb, S = cond_spec_params(ops, kind, "c_", I, 1, Dy, Dx)
        M, bb, S = M[0], bb[0], S[0]
        Li, d = spec.inv(ops, S)
        const = -ops.c(Fraction(1, 2)) * ops.lnabs(d) - ops.c(Fraction(Dy, 2)) * ops.ln2pi()
        e1 = ops.zeros((Rq,)); e2 = ops.zeros((Rq,))
        for r in range(Rq):
            # (1) under q over z = (y, x)
            mom = spec.Moments(ops, I["mq"][r], I["Sq"][r])
            res = []
            for i in range(Dy):
                row = ops.zeros((D,))
                row[i] = ops.one()
                for j in range(Dx):
                    row[Dy + j] = -M[i, j]
                res.append(spec.p_affine(ops, row, -bb[i]))
            poly = spec.p_const(D, const)
            for i in range(Dy):
                for j in range(Dy):
                    poly = spec.p_add(poly, spec.p_scale(spec.p_mul(res[i], res[j]), ops.c(Fraction(-1, 2)) * Li[i, j]))
            e1[r] = mom.expect(poly)
            # (2) under p(x) for the given y
            mom2 = spec.Moments(ops, I["mx"][r], I["Sx"][r])
            res = []
            for i in range(Dy):
                row = ops.zeros((Dx,))
                for j in range(Dx):
                    row[j] = -M[i, j]
                res.append(spec.p_affine(ops, row, I["y"][r][i] - bb[i]))
            poly = spec.p_const(Dx, const)
            for i in range(Dy):
                for j in range(Dy):
                    poly = spec.p_add(poly, spec.p_scale(spec.p_mul(res[i], res[j]), ops.c(Fraction(-1, 2)) * Li[i, j]))
            e2[r] = mom2.expect(poly)
        return [("integrate_log_conditional(q) = E_q[ln p(y|x)]", O["ilc"], e1),
                ("integrate_log_conditional_y(p_x, y) = E_p(x)[ln p(y|x)]", O["ilcy"], e2),
                ("integrate_log_conditional_y(p_x)(y) = E_p(x)[ln p(y|x)]", O["ilcy_callable"], e2)]

    return Case(cid, PROP, cfg, declare, fn, claims, timeout=timeout)


# ------------------------------------------------------------------------------ feature models
def kernel_quadratics(ops, model, I, Dx, Dk):
    """per kernel i: (A_i [Dx,Dx], a_i [Dx], c_i) with k_i(x) = exp(-x'A_i x/2 + a_i'x + c_i)"""
    out = []
    for k in range(Dk):
        A = ops.zeros((Dx, Dx)); a = ops.zeros((Dx,)); c = ops.zero()
        if model == "lrbf":
            s, l = I["centres"], I["ls"]
            for d in range(Dx):
                il2 = ops.one() / (l[k, d] * l[k, d])
                A[d, d] = il2
                a[d] = s[k, d] * il2
                c = c - ops.c(Fraction(1, 2)) * s[k, d] * s[k, d] * il2
        else:
            W = I["W"]
            w0 = W[k, 0]
            for i in range(Dx):
                for j in range(Dx):
                    A[i, j] = W[k, 1 + i] * W[k, 1 + j]
                a[i] = W[k, 1 + i] * w0
            c = -ops.c(Fraction(1, 2)) * w0 * w0
        out.append((A, a, c))
    return out


def tilted(ops, m, S, A, a, c, embed=None):
    """E_{N(m,S)}[ . exp(-z'Az/2 + a'z + c)]: returns (mass, Moments of the tilted Gaussian).
    embed: list of coordinates of z on which the kernel acts (A, a given in that subspace)."""
    D = len(m)
    Si, dS = spec.inv(ops, S)
    Lt = Si.copy(); nt = spec.mv(Si, m)
    idx = list(range(D)) if embed is None else list(embed)
    for p, i in enumerate(idx):
        nt[i] = nt[i] + a[p]
        for q_, j in enumerate(idx):
            Lt[i, j] = Lt[i, j] + A[p, q_]
    lb = c - ops.c(Fraction(1, 2)) * spec.quad(m, Si, m) - ops.c(Fraction(1, 2)) * ops.lnabs(dS) - ops.c(Fraction(D, 2)) * ops.ln2pi()
    mass = ops.exp(spec.ln_mass(ops, Lt, nt, lb))
    St, _ = spec.inv(ops, Lt)
    return mass, spec.Moments(ops, spec.mv(St, nt), St)


def declare_feature(b, model, Dx, Dk, Dy, semi=()):
    b.free("M", (1, Dy, Dx + Dk)); b.free("bv", (1, Dy))
    if "Sy" in semi:
        b.const("S", b.rat_spd(1, Dy))
    else:
        b.spd("S", 1, Dy)
    if model == "lrbf":
        b.free("centres", (Dk, Dx)); b.pos("ls", (Dk, Dx))
    else:
        b.free("W", (Dk, Dx + 1))


def make_feature(model, A):
    from gaussian_toolbox import approximate_conditional as ac
    if model == "lrbf":
        return ac.LRBFGaussianConditional(M=A["M"], b=A["bv"], mu=A["centres"], length_scale=A["ls"], Sigma=A["S"])
    return ac.LSEMGaussianConditional(M=A["M"], b=A["bv"], W=A["W"], Sigma=A["S"])


def expected_logpdf_feature(ops, model, I, Dx, Dk, Dy, m, S, zdim, xcoords, yvec=None, ycoords=None):
    """E_{z~N(m,S)}[ln N(y; M (x,k(x)) + b, Sigma)], x = z[xcoords]; y = z[ycoords] or the given vector"""
    Mx = I["M"][0][:, :Dx]; Mk = I["M"][0][:, Dx:]; bb = I["bv"][0]; Sg = I["S"][0]
    Li, d = spec.inv(ops, Sg)
    const = -ops.c(Fraction(1, 2)) * ops.lnabs(d) - ops.c(Fraction(Dy, 2)) * ops.ln2pi()
    kq = kernel_quadratics(ops, model, I, Dx, Dk)
    # residual without kernels: r_i(z) = y_i - (Mx x)_i - b_i  (affine in z)
    res = []
    for i in range(Dy):
        row = ops.zeros((zdim,))
        cst = -bb[i]
        if ycoords is not None:
            row[ycoords[i]] = ops.one()
        else:
            cst = cst + yvec[i]
        for j in range(Dx):
            row[xcoords[j]] = row[xcoords[j]] - Mx[i, j]
        res.append(spec.p_affine(ops, row, cst))
    mom = spec.Moments(ops, m, S)
    tot = const
    # -1/2 E[r' L r]
    for i in range(Dy):
        for j in range(Dy):
            tot = tot + ops.c(Fraction(-1, 2)) * Li[i, j] * mom.expect(spec.p_mul(res[i], res[j]))
    # + E[r' L Mk k]   (the cross term enters with coefficient -1/2 * (-2))
    for k in range(Dk):
        A, a, c = kq[k]
        mass, tm = tilted(ops, m, S, A, a, c, embed=xcoords)
        for i in range(Dy):
            for j in range(Dy):
                tot = tot + Li[i, j] * Mk[j, k] * mass * tm.expect(res[i])
    # -1/2 E[k' Mk' L Mk k]
    for k in range(Dk):
        for l in range(Dk):
            A1, a1, c1 = kq[k]; A2, a2, c2 = kq[l]
            mass, _ = tilted(ops, m, S, A1 + A2, a1 + a2, c1 + c2, embed=xcoords)
            coef = ops.zero()
            for i in range(Dy):
                for j in range(Dy):
                    coef = coef + Mk[i, k] * Li[i, j] * Mk[j, l]
            tot = tot + ops.c(Fraction(-1, 2)) * coef * mass
    return tot


def feature_case(model, Dx, Dk, Dy, Rq, semi=(), timeout=900):
    cid = f"C14/feature/{model}/Dx{Dx}Dk{Dk}Dy{Dy}/Rq{Rq}" + ("/semi-" + "-".join(semi) if semi else "")
    cfg = dict(op="integrate_log_conditional(q) / integrate_log_conditional_y(p_x, y)", model=model, Dx=Dx, Dk=Dk, Dy=Dy, R_q=Rq, concrete_blocks=list(semi))
    D = Dx + Dy

    def declare(b):
        declare_feature(b, model, Dx, Dk, Dy, semi)
        if "Sq" in semi:
            b.const("Sq", b.rat_spd(Rq, D))
        else:
            b.spd("Sq", Rq, D)
        b.free("mq", (Rq, D))
        if "Sx" in semi:
            b.const("Sx", b.rat_spd(Rq, Dx))
        else:
            b.spd("Sx", Rq, Dx)
        b.free("mx", (Rq, Dx)); b.free("y", (Rq, Dy))

    def fn(**A):
        factor, measure, pdf, conditional = gt()
        c = make_feature(model, A)
        q = pdf.GaussianPDF(Sigma=A["Sq"], mu=A["mq"])
        px = pdf.GaussianPDF(Sigma=A["Sx"], mu=A["mx"])
        return {"ilc": c.integrate_log_conditional(q), "ilcy": c.integrate_log_conditional_y(px, y=A["y"]),
                "ilcy_callable": c.integrate_log_conditional_y(px)(A["y"])}

    def claims(I, O, ops):
        e1 = ops.zeros((Rq,)); e2 = ops.zeros((Rq,))
        for r in range(Rq):
            e1[r] = expected_logpdf_feature(ops, model, I, Dx, Dk, Dy, I["mq"][r], I["Sq"][r], D, list(range(Dy, D)), ycoords=list(range(Dy)))
            e2[r] = expected_logpdf_feature(ops, model, I, Dx, Dk, Dy, I["mx"][r], I["Sx"][r], Dx, list(range(Dx)), yvec=I["y"][r])
        return [("integrate_log_conditional(q) = E_q[ln p(y|x)] (arbitrary Gaussian q)", O["ilc"], e1),
                ("integrate_log_conditional_y(p_x, y) = E_p(x)[ln p(y|x)]", O["ilcy"], e2),
                ("integrate_log_conditional_y(p_x)(y) = E_p(x)[ln p(y|x)]", O["ilcy_callable"], e2)]

    return Case(cid, PROP, cfg, declare, fn, claims, timeout=timeout)


def cases(tier, seed=0):
    out = []
    for mk in ("pdf", "measure"):
        for fk in ("conjugate", "onerank", "linear", "constant", "measure"):
            for Rf in (1, 2):
                out.append(logfactor_case(mk, fk, 2, 2, Rf))
    for kind in ("full", "diag", "identity", "identitydiag", "nncontrol"):
        ident = kind.startswith("identity")
        for (Dx, Dy) in ([(1, 1), (2, 2)] if ident else [(1, 1), (2, 1), (1, 2)]):
            semi = ("Sq", "Sx") if Dx + Dy == 4 else ()
            out.append(lincond_case(kind, Dx, Dy, 1, semi=semi))
            if tier == "thorough" or (Dx, Dy) == (1, 1):
                out.append(lincond_case(kind, Dx, Dy, 2, semi=semi)) if kind in ("full", "diag", "nncontrol") else None
        if tier == "thorough" and not ident:
            out.append(lincond_case(kind, 2, 2, 1, semi=("Sq",), timeout=1800))
    out = [c for c in out if c is not None]
    # constructor / history variants of the linear kinds (precision only; covariance and precision together; after update_Sigma)
    for kind in ("full", "diag", "identity", "identitydiag", "nncontrol"):
        for var in (("viaL",), ("viaSL",), ("upd",)):
            if kind == "nncontrol" and var != ("upd",):
                continue
            dd = (1, 1) if kind.startswith("identity") else (1, 2)
            out.append(lincond_case(kind, dd[0], dd[1], 1, semi=var))
    for model in ("lrbf", "lsem"):
        out.append(feature_case(model, 1, 1, 1, 1))
        out.append(feature_case(model, 1, 2, 1, 1))
        # Dk >= 2 together with Dy >= 2: the (kernel, output) layouts of the cross terms differ only here
        out.append(feature_case(model, 1, 2, 2, 1, semi=("Sy",), timeout=1200))
        if tier == "thorough":
            out.append(feature_case(model, 1, 2, 2, 1, timeout=2400))
            out.append(feature_case(model, 2, 1, 1, 1, semi=("Sq",), timeout=2400))
            out.append(feature_case(model, 2, 2, 1, 1, semi=("Sq", "Sx"), timeout=3000))
            out.append(feature_case(model, 1, 1, 1, 2, timeout=2400))
            out.append(feature_case(model, 2, 2, 2, 1, semi=("Sq",), timeout=3000))
            out.append(feature_case(model, 2, 3, 1, 1, semi=("Sq", "Sx"), timeout=3000))
            out.append(feature_case(model, 1, 3, 2, 1, semi=("Sy",), timeout=3000))
            out.append(feature_case(model, 1, 2, 2, 2, semi=("Sy",), timeout=3000))
    return out
