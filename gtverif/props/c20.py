"""C20: truncated one-dimensional Gaussian measures integrate correctly.

The standard normal cdf is a symbolic atom (gtverif/phi.py): Phi(t) is a field generator per argument,
constrained by 0 < Phi < 1, monotonicity, Phi(-t) = 1 - Phi(t), Phi(0) = 1/2, Phi(+-inf) = 1/0; the pdf
is exact (exp(-t^2/2)/sqrt(2 pi)).  The oracle does NOT use the library's recursion:
  * fundamental theorem:  d/db F_k(a,b) = b^k u(b),  d/da F_k(a,b) = -a^k u(a)   (d Phi(t) = phi(t) dt)
  * additivity:           F_k(a,b) + F_k(b,c) = F_k(a,c), also with one-sided pieces
  * anchors:              F_k(-inf, inf) = mass x Stein moment;  F_k(-inf, mu) = closed-form half-range moment
which together determine F_k.  Evaluation is checked on the three regions x<a, a<x<b, x>b.
In the float64 replay the oracle is adaptive quadrature of x^k u(x) on [a,b]."""
from fractions import Fraction
import math
import numpy as np

from ..case import Case, random_env
from .. import spec
from ..phi import patched_norm
from .common import gt

PROP = "C20"

BOUNDS = {
    "quick": "R=1 and R=2; limits: both finite (a<b symbolic), one-sided (-inf / +inf concrete), both infinite; k = 0..4 via '1','x','x**2','x**k'; evaluation on the three regions; normalised variant from get_density() and built directly on an un-normalised measure",
    "thorough": "k up to 6 for every kind of limits with R=2 (R=3 for finite limits, k<=4), three-interval additivity with R=2 and with k up to 6, evaluation / normalised variants with R=2 for one-sided limits and R=3",
}
ASSUMPTIONS = ["jax.scipy.stats.norm.cdf is abstracted to a field generator per argument with the axioms listed in gtverif/phi.py; norm.pdf is exact; far-tail floating-point accuracy (cancellation of the cdf difference) is a floating-point clause and outside",
               "the fundamental-theorem obligations differentiate the SYMBOLIC output of the real code (d Phi(t) = phi(t) dt); together with additivity and the two anchors they determine every F_k"]


def _u_params(I, r=0):
    s = I["s"][r]
    return s, I["nu"][r, 0], I["lb"][r]


def _ln_u(ops, I, x, r=0):
    s, nu, lb = _u_params(I, r)
    lam = ops.one() / (s * s)
    return ops.c(Fraction(-1, 2)) * lam * x * x + nu * x + lb


def _build_measure(A):
    factor, measure, pdf, conditional = gt()
    import jax.numpy as jnp
    lam = (1.0 / A["s"] ** 2)[:, None, None]
    return measure.GaussianMeasure(Lambda=lam, nu=A["nu"], ln_beta=A["lb"])


def _quad_moment(I, k, lo, hi, r=0):
    from scipy import integrate
    s, nu, lb = float(I["s"][r]), float(I["nu"][r, 0]), float(I["lb"][r])
    f = lambda x: x ** k * math.exp(-0.5 * x * x / (s * s) + nu * x + lb)
    mu = nu * s * s
    lo_ = max(lo, mu - 40 * s); hi_ = min(hi, mu + 40 * s)
    if hi_ <= lo_:
        return 0.0
    pts = [p for p in (mu,) if lo_ < p < hi_]
    return integrate.quad(f, lo_, hi_, points=pts or None, epsabs=1e-13, epsrel=1e-12, limit=400)[0]


def _env_factory(order_names):
    """numeric environments that satisfy a < b < c and the evaluation-point regions"""
    def env(ctx, rng):
        e = random_env(ctx, rng)
        vals = sorted(rng.randint(-24, 24) / 16.0 for _ in range(8))
        # strictly increasing chain for the declared ordered names
        base = rng.randint(-20, 0) / 16.0
        for n in order_names:
            base += rng.randint(3, 14) / 16.0
            e[n] = base
        return e
    return env


def moments_case(limits, K, R=1, timeout=600):
    """limits: 'ab' (finite a<b) | 'abc' (additivity, a<b<c) | 'lo' ([a, inf)) | 'hi' ((-inf, b]) | 'split' ((-inf,b] + [b,inf) = R) | 'mu' ((-inf, mu])"""
    cid = f"C20/moments/{limits}/K{K}R{R}"
    cfg = dict(what="integrals of x^k u(x) over the truncation interval", limits=limits, k_max=K, R=R)
    names = {"ab": ["a", "b"], "abc": ["a", "b", "c"], "lo": ["a"], "hi": ["b"], "split": ["b"], "mu": [], "full": []}[limits]

    def declare(b):
        b.pos("s", (R,)); b.free("nu", (R, 1)); b.free("lb", (R,))
        for n in names:
            b.free(n, (1, 1))
        if limits in ("ab", "abc"):
            b.assume(lambda ctx, vc: "(< a_0_0 b_0_0)")
        if limits == "abc":
            b.assume(lambda ctx, vc: "(< b_0_0 c_0_0)")
        if limits == "mu":
            b.derived("mulim", (R, 1), lambda I, ops: np.array([[I["nu"][r, 0] * I["s"][r] * I["s"][r]] for r in range(R)], dtype=object))
        b.phi_slots(3 * R + 1)

    def intervals(A):
        import jax.numpy as jnp
        inf = jnp.inf
        if limits == "ab":
            return [(A["a"], A["b"])]
        if limits == "abc":
            return [(A["a"], A["b"]), (A["b"], A["c"]), (A["a"], A["c"])]
        if limits == "lo":
            return [(A["a"], inf)]
        if limits == "hi":
            return [(-inf, A["b"])]
        if limits == "split":
            return [(-inf, A["b"]), (A["b"], inf), (-inf, inf)]
        if limits == "mu":
            return [(-inf, A["mulim"])]
        if limits == "full":
            return [(-inf, inf)]

    def fn(**A):
        from gaussian_toolbox.experimental import truncated_measure as tm
        with patched_norm():
            u = _build_measure(A)
            out = []
            for (lo, hi) in intervals(A):
                t = tm.TruncatedGaussianMeasure(measure=u, lower_limit=lo, upper_limit=hi)
                o = {"F": [t.integrate("x**k", k=k)[:, 0] for k in range(K + 1)], "one": t.integrate("1"), "default": t.integrate(),
                     "x": t.integrate("x")[:, 0], "x2": t.integrate("x**2")[:, 0], "integral": t.integral()}
                out.append(o)
            return out

    def claims(I, O, ops):
        cl = []
        if not ops.symbolic:
            # float64 replay: adaptive quadrature of x^k u(x) over the interval
            inf = float("inf")
            ivs = {"ab": [("a", "b")], "abc": [("a", "b"), ("b", "c"), ("a", "c")], "lo": [("a", None)], "hi": [(None, "b")],
                   "split": [(None, "b"), ("b", None), (None, None)], "mu": [(None, "mulim")], "full": [(None, None)]}[limits]
            for o, (lo, hi) in zip(O, ivs):
                for r in range(R):
                    lov = -inf if lo is None else float(np.asarray(I[lo]).reshape(-1)[r if lo == "mulim" else 0])
                    hiv = inf if hi is None else float(np.asarray(I[hi]).reshape(-1)[r if hi == "mulim" else 0])
                    for k in range(K + 1):
                        cl.append((f"F_{k}({lo},{hi}) = quadrature of x^{k} u(x)", np.asarray(o["F"][k])[r], _quad_moment(I, k, lov, hiv, r)))
                    cl.append(("integrate('1')", np.asarray(o["one"])[r], _quad_moment(I, 0, lov, hiv, r)))
                    cl.append(("integrate('x')", np.asarray(o["x"])[r], _quad_moment(I, 1, lov, hiv, r)))
                    cl.append(("integrate('x**2')", np.asarray(o["x2"])[r], _quad_moment(I, 2, lov, hiv, r)))
            return cl
        phi = ops.ctx.phi
        for n, o in enumerate(O):
            cl.append((f"interval {n}: integrate('1') = F_0", o["one"], o["F"][0]))
            cl.append((f"interval {n}: integrate() = F_0", o["default"], o["F"][0]))
            cl.append((f"interval {n}: integral() = F_0", o["integral"], o["F"][0]))
            if K >= 1:
                cl.append((f"interval {n}: integrate('x') = F_1", o["x"], o["F"][1]))
            if K >= 2:
                cl.append((f"interval {n}: integrate('x**2') = F_2", o["x2"], o["F"][2]))

        def ftc(o, lo_name, hi_name, tag):
            for r in range(R):
                for k in range(K + 1):
                    F = o["F"][k][r]
                    if hi_name:
                        bv = I[hi_name][0, 0]
                        cl.append((f"{tag}: d F_{k} / d upper = upper^{k} u(upper)", phi.total_diff(F, hi_name + "_0_0"), (bv ** k) * _ln_u(ops, I, bv, r).exp()))
                    if lo_name:
                        av = I[lo_name][0, 0]
                        cl.append((f"{tag}: d F_{k} / d lower = -lower^{k} u(lower)", phi.total_diff(F, lo_name + "_0_0"), -(av ** k) * _ln_u(ops, I, av, r).exp()))
        if limits == "ab":
            ftc(O[0], "a", "b", "[a,b]")
        elif limits == "abc":
            ftc(O[0], "a", "b", "[a,b]")
            for k in range(K + 1):
                cl.append((f"additivity F_{k}(a,b) + F_{k}(b,c) = F_{k}(a,c)", O[0]["F"][k] + O[1]["F"][k], O[2]["F"][k]))
        elif limits == "lo":
            ftc(O[0], "a", None, "[a,inf)")
        elif limits == "hi":
            ftc(O[0], None, "b", "(-inf,b]")
        if limits in ("split", "full"):
            tot = O[2] if limits == "split" else O[0]
            for r in range(R):
                s, nu, lb = _u_params(I, r)
                Sg = np.array([[s * s]], dtype=object); mu = np.array([nu * s * s], dtype=object)
                lam = np.array([[ops.one() / (s * s)]], dtype=object)
                mass = ops.exp(spec.ln_mass(ops, lam, np.array([nu], dtype=object), lb))
                mom = spec.Moments(ops, mu, Sg)
                for k in range(K + 1):
                    cl.append((f"F_{k}(-inf,inf) = mass x Gaussian moment", tot["F"][k][r], mass * mom.mono((k,))))
            if limits == "split":
                for k in range(K + 1):
                    cl.append((f"additivity F_{k}(-inf,b) + F_{k}(b,inf) = F_{k}(-inf,inf)", O[0]["F"][k] + O[1]["F"][k], O[2]["F"][k]))
        if limits == "mu":
            # closed-form half-range moments: h_0 = 1/2, h_1 = -1/sqrt(2 pi), h_j = (j-1) h_{j-2}
            h = [ops.c(Fraction(1, 2)), -(ops.ctx.rat(2 * ops.ctx.g["PI"]) ** Fraction(-1, 2))]
            for j in range(2, K + 1):
                h.append(h[j - 2] * ops.c(j - 1))
            for r in range(R):
                s, nu, lb = _u_params(I, r)
                mu = nu * s * s
                lam = np.array([[ops.one() / (s * s)]], dtype=object)
                mass = ops.exp(spec.ln_mass(ops, lam, np.array([nu], dtype=object), lb))
                for k in range(K + 1):
                    t = ops.zero()
                    for j in range(k + 1):
                        t = t + ops.c(math.comb(k, j)) * (mu ** (k - j)) * (s ** j) * h[j]
                    cl.append((f"anchor F_{k}(-inf, mu) = mass x half-range moment", O[0]["F"][k][r], mass * t))
        return cl

    return Case(cid, PROP, cfg, declare, fn, claims, timeout=timeout, env=_env_factory([n + "_0_0" for n in names]))


def call_case(variant, limits, R=1, timeout=600):
    """variant: measure | pdf_from_measure (get_density) | pdf_direct (TruncatedGaussianPDF built on the un-normalised measure)"""
    cid = f"C20/call/{variant}/{limits}/R{R}"
    cfg = dict(what="evaluation inside / outside the interval; normalised variant: value, integral, mean, variance", variant=variant, limits=limits, R=R)
    has_a = limits in ("ab", "lo"); has_b = limits in ("ab", "hi")
    chain = (["x1", "a"] if has_a else []) + ["x2"] + (["b", "x3"] if has_b else [])

    def declare(b):
        b.pos("s", (R,)); b.free("nu", (R, 1)); b.free("lb", (R,))
        for n in chain:
            b.free(n, (1, 1))
        for p, q in zip(chain[:-1], chain[1:]):
            b.assume(lambda ctx, vc, p=p, q=q: f"(< {p}_0_0 {q}_0_0)")
        b.phi_slots(2 * R + 1)

    def fn(**A):
        import jax.numpy as jnp
        from gaussian_toolbox.experimental import truncated_measure as tm
        with patched_norm():
            u = _build_measure(A)
            lo = A["a"] if has_a else -jnp.inf
            hi = A["b"] if has_b else jnp.inf
            if variant == "measure":
                t = tm.TruncatedGaussianMeasure(measure=u, lower_limit=lo, upper_limit=hi)
            elif variant == "pdf_from_measure":
                t = tm.TruncatedGaussianMeasure(measure=u, lower_limit=lo, upper_limit=hi).get_density()
            else:
                t = tm.TruncatedGaussianPDF(measure=u, lower_limit=lo, upper_limit=hi)
            xs = jnp.concatenate([A[n] for n in chain if n.startswith("x")], axis=0)
            out = {"vals": t(xs)}
            base = tm.TruncatedGaussianMeasure(measure=u, lower_limit=lo, upper_limit=hi)
            out["F"] = [base.integrate("x**k", k=k)[:, 0] for k in range(3)]
            if variant != "measure":
                out["one"] = t.integrate("1"); out["mean"] = t.get_mean()[:, 0]; out["var"] = t.get_variance()[:, 0]
                out["Ex"] = t.integrate("x")[:, 0]; out["Ex2"] = t.integrate("x**2")[:, 0]
            return out

    def claims(I, O, ops):
        xn = [n for n in chain if n.startswith("x")]
        cl = []
        F0, F1, F2 = O["F"]
        if not ops.symbolic:
            inf = float("inf")
            lov = float(I["a"][0, 0]) if has_a else -inf
            hiv = float(I["b"][0, 0]) if has_b else inf
            F0 = np.array([_quad_moment(I, 0, lov, hiv, r) for r in range(R)])
            F1 = np.array([_quad_moment(I, 1, lov, hiv, r) for r in range(R)])
            F2 = np.array([_quad_moment(I, 2, lov, hiv, r) for r in range(R)])
        exp = ops.zeros((R, len(xn)))
        for r in range(R):
            for j, n in enumerate(xn):
                if n == "x2":
                    v = ops.exp(_ln_u(ops, I, I[n][0, 0], r))
                    exp[r, j] = v if variant == "measure" else v / F0[r]
                else:
                    exp[r, j] = ops.zero()
        cl.append(("value = u(x) inside the interval (divided by the truncated mass for the normalised variant), 0 outside", O["vals"], exp))
        if variant != "measure":
            one = ops.zeros((R,))
            for r in range(R):
                one[r] = ops.one()
            cl.append(("normalised truncated density integrates to one", O["one"], one))
            cl.append(("mean = F_1 / F_0", O["mean"], F1 / F0))
            cl.append(("variance = F_2 / F_0 - (F_1 / F_0)^2", O["var"], F2 / F0 - (F1 / F0) * (F1 / F0)))
            cl.append(("integrate('x') of the density = F_1 / F_0", O["Ex"], F1 / F0))
            cl.append(("integrate('x**2') of the density = F_2 / F_0", O["Ex2"], F2 / F0))
        return cl

    return Case(cid, PROP, cfg, declare, fn, claims, timeout=timeout, env=_env_factory([n + "_0_0" for n in chain]))


def elementwise_case(variant, pattern, timeout=600):
    """element_wise=True: component r is evaluated at its own point x_r against its OWN limits [a_r, b_r] (R = 2 measures with
    individual limits).  pattern 'own': a0 < x0 < b0 < a1 < x1 < b1 (each point inside only its own interval);
    'out1': a0 < x0 < b0 < x1 < a1 < b1 (second point below its interval); 'shared': one interval [a, b], x0 inside, x1 above."""
    R = 2
    cid = f"C20/call-elementwise/{variant}/{pattern}/R{R}"
    cfg = dict(what="element-wise evaluation: component r at its own point against its own limits", variant=variant, pattern=pattern, R=R)
    chain = {"own": ["a0", "x0", "b0", "a1", "x1", "b1"], "out1": ["a0", "x0", "b0", "x1", "a1", "b1"], "shared": ["a0", "x0", "b0", "x1"]}[pattern]

    def declare(b):
        b.pos("s", (R,)); b.free("nu", (R, 1)); b.free("lb", (R,))
        for n in chain:
            b.free(n, (1, 1))
        for p, q in zip(chain[:-1], chain[1:]):
            b.assume(lambda ctx, vc, p=p, q=q: f"(< {p}_0_0 {q}_0_0)")
        b.phi_slots(2 * R + 1)

    def fn(**A):
        import jax.numpy as jnp
        from gaussian_toolbox.experimental import truncated_measure as tm
        with patched_norm():
            u = _build_measure(A)
            if pattern == "shared":
                lo, hi = A["a0"], A["b0"]
            else:
                lo = jnp.concatenate([A["a0"], A["a1"]], axis=0); hi = jnp.concatenate([A["b0"], A["b1"]], axis=0)
            if variant == "measure":
                t = tm.TruncatedGaussianMeasure(measure=u, lower_limit=lo, upper_limit=hi)
            elif variant == "pdf_from_measure":
                t = tm.TruncatedGaussianMeasure(measure=u, lower_limit=lo, upper_limit=hi).get_density()
            else:
                t = tm.TruncatedGaussianPDF(measure=u, lower_limit=lo, upper_limit=hi)
            xs = jnp.concatenate([A["x0"], A["x1"]], axis=0)
            base = tm.TruncatedGaussianMeasure(measure=u, lower_limit=lo, upper_limit=hi)
            return {"vals": t(xs, element_wise=True), "table": t(xs), "F0": base.integrate("1")}

    def claims(I, O, ops):
        F0 = O["F0"]
        lims = [("a0", "b0"), ("a0", "b0")] if pattern == "shared" else [("a0", "b0"), ("a1", "b1")]
        if not ops.symbolic:
            F0 = np.array([_quad_moment(I, 0, float(I[lims[r][0]][0, 0]), float(I[lims[r][1]][0, 0]), r) for r in range(R)])
        pos = {n: k for k, n in enumerate(chain)}

        def inside(r, xn):
            lo, hi = lims[r]
            return pos[lo] < pos[xn] < pos[hi]
        ew = ops.zeros((R,)); tab = ops.zeros((R, R))
        for r in range(R):
            for j, xn in enumerate(("x0", "x1")):
                v = ops.zero()
                if inside(r, xn):
                    v = ops.exp(_ln_u(ops, I, I[xn][0, 0], r))
                    if variant != "measure":
                        v = v / F0[r]
                tab[r, j] = v
            ew[r] = tab[r, r]
        return [("element_wise value of component r = u_r(x_r) inside its own interval, else 0", O["vals"], ew),
                ("table value [r, n] = u_r(x_n) inside the interval of component r, else 0", O["table"], tab)]

    return Case(cid, PROP, cfg, declare, fn, claims, timeout=timeout, env=_env_factory([n + "_0_0" for n in chain]))


def cases(tier, seed=0):
    K = 4 if tier == "quick" else 6
    out = [moments_case("ab", K), moments_case("abc", min(K, 4)), moments_case("lo", K), moments_case("hi", K), moments_case("split", K),
           moments_case("mu", K), moments_case("full", K), moments_case("ab", 2, R=2), moments_case("hi", 3, R=2)]
    if tier == "thorough":
        out += [moments_case("abc", 4, R=2, timeout=2400), moments_case("split", 6, R=2, timeout=2400), moments_case("mu", 6, R=2, timeout=2400),
                moments_case("ab", 6, R=2, timeout=2400), moments_case("lo", 6, R=2, timeout=2400), moments_case("hi", 6, R=2, timeout=2400),
                moments_case("full", 6, R=2, timeout=2400), moments_case("abc", 6, timeout=2400), moments_case("ab", 4, R=3, timeout=2400)]
    for variant in ("measure", "pdf_from_measure", "pdf_direct"):
        for limits in ("ab", "lo", "hi"):
            out.append(call_case(variant, limits))
        out.append(call_case(variant, "ab", R=2))
        if tier == "thorough":
            out += [call_case(variant, "lo", R=2, timeout=1200), call_case(variant, "hi", R=2, timeout=1200), call_case(variant, "ab", R=3, timeout=1200)]
        for pattern in ("own", "out1", "shared"):
            out.append(elementwise_case(variant, pattern))
    return out
