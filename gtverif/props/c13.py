"""C13: entropy, KL divergence, conditional entropy and mutual information equal the expectations
of log-densities that define them (Stein-moment oracle), with sign claims decided in dimension 1."""
from fractions import Fraction
import numpy as np

from ..case import Case
from .. import spec
from .common import gt, make_cond, cond_spec_params
from .condprops import cond_decl, prior_decl, joint_layout, rotations, make_prior, CTOR_VARIANTS

PROP = "C13"

BOUNDS = {
    "quick": "entropy / KL: D<=2 fully symbolic, R combinations (2,2),(1,2),(2,1); conditional entropy / MI: all linear conditional kinds, (Dx,Dy) in {(1,1),(2,1),(1,2)} fully symbolic, (2,2) semi-symbolic; sign claims KL>=0, MI>=0 decided by z3 for D=Dx=Dy=1 (ln abstracted, only the instance ln t <= t-1 given)",
    "thorough": "adds D=3 KL/entropy, (3,1),(1,3) conditionals, batches up to 3",
}
ASSUMPTIONS = ["non-negativity of KL / MI for D>=2 is NOT solver-decided: it follows from the proved equality with E_p[ln p - ln q] (Gibbs) and is reported as implied"]


def _logN_poly(ops, D, mu, Sigma):
    """ln N(x; mu, Sigma) as a polynomial in x (dict alpha->coef) -- used under an expectation"""
    Li, d = spec.inv(ops, Sigma)
    poly = spec.p_const(D, -ops.c(Fraction(1, 2)) * ops.lnabs(d) - ops.c(Fraction(D, 2)) * ops.ln2pi())
    for i in range(D):
        for j in range(D):
            di = spec.p_add(spec.p_var(ops, D, i), spec.p_const(D, -mu[i]))
            dj = spec.p_add(spec.p_var(ops, D, j), spec.p_const(D, -mu[j]))
            poly = spec.p_add(poly, spec.p_scale(spec.p_mul(di, dj), ops.c(Fraction(-1, 2)) * Li[i, j]))
    return poly


def kl_case(D, Rp, Rq, same=False, timeout=400, classes=("full", "full")):
    """classes: (class of p, class of q) in {full, diag}: the two sides may be of different density classes"""
    cid = f"C13/kl/D{D}Rp{Rp}Rq{Rq}" + ("/same" if same else "") + ("" if classes == ("full", "full") else f"/{classes[0]}-vs-{classes[1]}")
    cfg = dict(op="entropy+kl_divergence", D=D, R_p=Rp, R_q=Rq, q_equals_p=same, class_p=classes[0], class_q=classes[1])
    R = max(Rp, Rq)

    def declare(b):
        (b.diag if classes[0] == "diag" else b.spd)("Sp", Rp, D); b.free("mp", (Rp, D))
        if not same:
            (b.diag if classes[1] == "diag" else b.spd)("Sq", Rq, D); b.free("mq", (Rq, D))

    def fn(**A):
        factor, measure, pdf, conditional = gt()
        cp = pdf.GaussianDiagPDF if classes[0] == "diag" else pdf.GaussianPDF
        cq = pdf.GaussianDiagPDF if classes[1] == "diag" else pdf.GaussianPDF
        p = cp(Sigma=A["Sp"], mu=A["mp"])
        q = cp(Sigma=A["Sp"], mu=A["mp"]) if same else cq(Sigma=A["Sq"], mu=A["mq"])
        return {"H": p.entropy(), "KL": p.kl_divergence(q)}

    def claims(I, O, ops):
        Sp, mp = I["Sp"], I["mp"]
        Sq, mq = (Sp, mp) if same else (I["Sq"], I["mq"])
        cl = []
        eH = ops.zeros((Rp,))
        for r in range(Rp):
            mom = spec.Moments(ops, mp[r], Sp[r])
            eH[r] = -mom.expect(_logN_poly(ops, D, mp[r], Sp[r]))
        cl.append(("entropy = -E_p[ln p]", O["H"], eH))
        eK = ops.zeros((R,))
        for r in range(R):
            rp, rq = (r if Rp > 1 else 0), (r if (Rq > 1 and not same) or (same and Rp > 1) else 0)
            mom = spec.Moments(ops, mp[rp], Sp[rp])
            eK[r] = mom.expect(_logN_poly(ops, D, mp[rp], Sp[rp])) - mom.expect(_logN_poly(ops, D, mq[rq], Sq[rq]))
        if same:
            cl.append(("KL(p,p) = 0", O["KL"], ops.zeros((R,))))
        else:
            cl.append(("KL(p,q) = E_p[ln p - ln q]", O["KL"], eK))
            if D == 1:
                inst = []
                for r in range(R):
                    rp, rq = (r if Rp > 1 else 0), (r if Rq > 1 else 0)
                    inst.append(Sp[rp][0, 0] / Sq[rq][0, 0])
                cl.append(("GE0", "KL(p,q) >= 0", O["KL"], inst))
        return cl

    return Case(cid, PROP, cfg, declare, fn, claims, timeout=timeout)


def mi_case(kind, Dx, Dy, Rc, Rx, semi=(), zeroM=False, timeout=600):
    cid = f"C13/info/{kind}/Dx{Dx}Dy{Dy}/Rc{Rc}Rx{Rx}" + ("/semi-" + "-".join(semi) if semi else "") + ("/M0" if zeroM else "")
    cfg = dict(op="conditional_entropy+mutual_information", conditional=kind, Dx=Dx, Dy=Dy, R_cond=Rc, R_x=Rx, concrete_blocks=list(semi), M_is_zero=zeroM)
    R = Rc * Rx
    has_mi = kind != "nncontrol"     # NNControlGaussianConditional.mutual_information is inherited and needs u

    def declare(b):
        if zeroM:
            b.const("c_M", np.zeros((Rc, Dy, Dx), dtype=int).astype(object) * Fraction(0) + Fraction(0))
            b.free("c_b", (Rc, Dy)); (b.spd if kind == "full" else b.diag)("c_S", Rc, Dy)
        else:
            cond_decl(b, kind, Rc, Dy, Dx, semi)
        prior_decl(b, Rx, Dx, semi)

    def fn(**A):
        factor, measure, pdf, conditional = gt()
        c = make_cond(kind, "c_", A, Dy, Dx)
        px = make_prior(A)
        out = {"Hc": c.conditional_entropy(px)}
        out["MI"] = c.mutual_information(px)
        if not zeroM:
            post = c.affine_conditional_transformation(px)
            py = c.affine_marginal_transformation(px)
            out["MI_swapped"] = [post.slice(np.array([r])).mutual_information(py.slice(np.array([r]))) for r in range(R)]
        return out

    def claims(I, O, ops):
        cp = cond_spec_params(ops, kind, "c_", I, Rc, Dy, Dx)
        M, bb, S = cp
        Sx, mx = I["Sx"], I["mx"]
        D = Dx + Dy
        eHc = ops.zeros((R,)); eMI = ops.zeros((R,))
        for k, (rc, rx) in enumerate(joint_layout(Rc, Rx)):
            # joint moments of (x, y) by the spec
            mu = ops.zeros((D,)); Sg = ops.zeros((D, D))
            mu[:Dx] = mx[rx]; mu[Dx:] = spec.mv(M[rc], mx[rx]) + bb[rc]
            C = spec.mm(M[rc], Sx[rx])
            Sg[:Dx, :Dx] = Sx[rx]; Sg[Dx:, :Dx] = C; Sg[:Dx, Dx:] = C.T; Sg[Dx:, Dx:] = S[rc] + spec.mm(C, M[rc].T)
            mom = spec.Moments(ops, mu, Sg)
            # ln p(y|x) = ln N(y; Mx+b, S) as a polynomial in (x,y)
            Li, d = spec.inv(ops, S[rc])
            poly = spec.p_const(D, -ops.c(Fraction(1, 2)) * ops.lnabs(d) - ops.c(Fraction(Dy, 2)) * ops.ln2pi())
            res = []
            for i in range(Dy):
                row = ops.zeros((D,))
                for j in range(Dx):
                    row[j] = -M[rc][i, j]
                row[Dx + i] = ops.one()
                res.append(spec.p_affine(ops, row, -bb[rc][i]))
            for i in range(Dy):
                for j in range(Dy):
                    poly = spec.p_add(poly, spec.p_scale(spec.p_mul(res[i], res[j]), ops.c(Fraction(-1, 2)) * Li[i, j]))
            eHc[k] = -mom.expect(poly)
            # H(X), H(Y), H(X,Y) as -E[ln p] of the respective Gaussians
            def H(mean, cov, idx):
                Dm = len(idx)
                mm_ = spec.Moments(ops, mean, cov)
                return -mm_.expect(_logN_poly(ops, Dm, mean, cov))
            Hx = H(mx[rx], Sx[rx], range(Dx))
            Hy = H(mu[Dx:], Sg[Dx:, Dx:], range(Dy))
            Hxy = H(mu, Sg, range(D))
            eMI[k] = Hx + Hy - Hxy
        cl = [("conditional_entropy = -E[ln p(y|x)]", O["Hc"], eHc),
              ("mutual_information = H(X) + H(Y) - H(X,Y)", O["MI"], eMI)]
        if zeroM:
            cl.append(("mutual_information = 0 when y does not depend on x", O["MI"], ops.zeros((R,))))
        else:
            for r in range(R):
                cl.append((f"mutual information unchanged when x and y swap roles [{r}]", O["MI_swapped"][r], O["MI"][r:r + 1]))
            if Dx == 1 and Dy == 1 and kind != "nncontrol":
                inst = []
                for k, (rc, rx) in enumerate(joint_layout(Rc, Rx)):
                    inst.append((S[rc][0, 0] + M[rc][0, 0] * M[rc][0, 0] * Sx[rx][0, 0]) / S[rc][0, 0])
                cl.append(("GE0", "mutual_information >= 0", O["MI"], inst))
        return cl

    return Case(cid, PROP, cfg, declare, fn, claims, timeout=timeout)


def cases(tier, seed=0):
    out = []
    for D in (1, 2):
        for (Rp, Rq) in ((2, 2), (1, 2), (2, 1)):
            out.append(kl_case(D, Rp, Rq))
        out.append(kl_case(D, 2, 2, same=True))
    for cls in (("diag", "full"), ("full", "diag"), ("diag", "diag")):
        out.append(kl_case(2, 2, 2, classes=cls)); out.append(kl_case(2, 1, 2, classes=cls))
    out.append(kl_case(2, 2, 2, same=True, classes=("diag", "diag")))
    if tier == "thorough":
        out.append(kl_case(3, 1, 1, timeout=1800))
        out.append(kl_case(3, 2, 2, same=True, timeout=1800))
        out.append(kl_case(2, 3, 3, timeout=1800))
        out.append(kl_case(1, 3, 1, timeout=900))
    batches = [(1, 1), (1, 2), (2, 1)]
    for kind in ("full", "diag", "identity", "identitydiag", "nncontrol"):
        ident = kind.startswith("identity")
        for (Dx, Dy) in ([(1, 1)] if ident else [(1, 1), (2, 1), (1, 2)]):
            for (Rc, Rx) in batches:
                if kind == "nncontrol" and Rc > 2:
                    continue
                out.append(mi_case(kind, Dx, Dy, Rc, Rx))
        for (Rc, Rx) in ([(1, 1)] if tier == "quick" else batches):
            if kind == "nncontrol" and Rc > 2:
                continue
            for semi in rotations(kind, 2):
                out.append(mi_case(kind, 2, 2, Rc, Rx, semi=semi))
        if kind in ("full", "diag"):
            out.append(mi_case(kind, 2, 1, 1, 2, zeroM=True))
            out.append(mi_case(kind, 1, 2, 2, 1, zeroM=True))
        if tier == "thorough" and not ident:
            for (Dx, Dy) in ((3, 1), (1, 3)):
                for (Rc, Rx) in batches + [(1, 3)]:
                    if kind == "nncontrol" and Rc > 2:
                        continue
                    for semi in rotations(kind, 2):
                        out.append(mi_case(kind, Dx, Dy, Rc, Rx, semi=semi, timeout=1800))
    for kind in ("full", "diag", "identity", "identitydiag", "nncontrol"):
        for var in CTOR_VARIANTS:
            if kind == "nncontrol" and var in (("viaL",), ("viaSL",)):
                continue
            out.append(mi_case(kind, 1, 1, 1, 1, semi=var))
            if not kind.startswith("identity"):
                out.append(mi_case(kind, 1, 2, 1, 1, semi=var))
    return out
