"""C10: set_y(y) is the likelihood x -> N(y; Mx+b, Sigma) including its normaliser, as a well-formed batch."""
from .condprops import make_case, CTOR_VARIANTS

PROP = "C10"
EXTRA_DRAWS = 0      # the thorough tier of this property is long already: no additional draws of the generic rationals

BOUNDS = {
    "quick": "five conditional kinds; (Dx,Dy) in {(1,1),(2,1),(1,2)} (identity kinds (1,1),(2,2)); R=1 with N in {1,2} observations and R=N=2; product / slice / multiply / log_integral of the returned factor; constructor variants (precision only, covariance and precision, after update_Sigma)",
    "thorough": "(2,2),(3,1),(1,3) semi-symbolic, N=3",
}
ASSUMPTIONS = ["the known finding C10-sety-normaliser-uses-Dx is recognised by re-deciding the property modulo exactly that offset (adjusted VC must be unsat); any other deviation is reported"]

KINDS = ["full", "diag", "identity", "identitydiag", "nncontrol"]


def cases(tier, seed=0):
    out = []
    for kind in KINDS:
        ident = kind.startswith("identity")
        dims = [(1, 1), (2, 2)] if ident else [(1, 1), (2, 1), (1, 2), (2, 2)]
        if tier == "thorough":
            dims = dims + ([(3, 3)] if ident else [(3, 1), (1, 3), (3, 2), (2, 3)])
        for (Dx, Dy) in dims:
            for (Rc, N) in [(1, 1), (1, 2), (2, 2)] + ([(1, 3), (3, 3)] if tier == "thorough" else []):
                if kind == "nncontrol" and Rc > 2:
                    continue
                out.append(make_case(PROP, "sety", kind, Dx, Dy, Rc, 1, N=N, timeout=400))
            # prior x likelihood factors (multiply / log_integral)
            if Dx + Dy <= 3 or tier == "thorough":
                semi = () if Dx + Dy <= 3 else (("Sx",) if Dx + Dy == 4 else ("Sx", "Sy"))
                out.append(make_case(PROP, "sety_ops", kind, Dx, Dy, 1, 1, N=2, semi=semi, timeout=1500))
    for kind in KINDS:
        dd = (2, 2) if kind.startswith("identity") else (2, 1)
        for var in CTOR_VARIANTS:
            if (kind == "nncontrol" and var in (("viaL",), ("viaSL",))) or var[0].startswith("px"):
                continue
            out.append(make_case(PROP, "sety", kind, dd[0], dd[1], 1, 1, N=2, semi=var, timeout=600))
            out.append(make_case(PROP, "sety", kind, 1, 1, 2, 1, N=2, semi=var, timeout=600))
    return out
