"""C19: sample(key, n) is an affine image mu_r + L_r z[n,r,:] of the key's standard-normal stream with
L_r L_r' = Sigma_r, no cross-component / cross-draw terms.

Environment stub (part of the claim): jax.random.normal returns an ARBITRARY array z of the requested
shape (a symbolic input).  If z is i.i.d. N(0,1) -- JAX's contract -- the draws are then independent
N(mu_r, Sigma_r) variates and components are independent; the statistical clauses follow and are not
separately sampled."""
import numpy as np

from ..case import Case
from .. import spec
from .common import gt

PROP = "C19"

BOUNDS = {"quick": "R<=2, D<=3, n<=2 draws, fully symbolic Sigma (Cholesky parametrisation), mu, z",
          "thorough": "R=3, D=3, n=3; diagonal density class as well; routes at D=3",
          "routes": "sample() on densities returned by slice / get_marginal / condition_on(.)(x) / get_density_of_linear_sum / GaussianMeasure.get_density (R<=3, D<=2 quick, D=3 thorough)"}
ASSUMPTIONS = ["jax.random.normal(key, shape) is replaced by an arbitrary array of that shape (stub); the quality of JAX's generator is outside",
               "determinism in the key: the traced sample() is a pure function of (key, Sigma, mu) -- a jaxpr has no hidden state"]


def sample_case(kind, R, D, n, timeout=400):
    cid = f"C19/sample/{kind}/R{R}D{D}n{n}"
    cfg = dict(op="sample", density=kind, R=R, D=D, num_samples=n)

    def declare(b):
        (b.spd if kind == "pdf" else b.diag)("S", R, D)
        b.free("mu", (R, D)); b.free("z", (n, R, D))

    def fn(**A):
        import jax
        import jax.numpy as jnp
        factor, measure, pdf, conditional = gt()
        p = (pdf.GaussianPDF if kind == "pdf" else pdf.GaussianDiagPDF)(Sigma=A["S"], mu=A["mu"])
        key = jax.random.PRNGKey(0)
        calls = []
        orig = jax.random.normal

        def stub_factory(zval):
            def stub(k, shape=(), dtype=None, **kw):
                assert tuple(shape) == tuple(zval.shape), (shape, zval.shape)
                calls.append(tuple(shape))
                return zval
            return stub
        out = {}
        try:
            jax.random.normal = stub_factory(A["z"])
            out["x"] = p.sample(key, n)
            # responses to the zero stream and to unit impulses of draw 0 (coefficients of z)
            jax.random.normal = stub_factory(jnp.zeros((n, R, D)))
            out["x0"] = p.sample(key, n)
            imp = []
            for j in range(D):
                e = jnp.zeros((n, R, D)).at[:, :, j].set(1.0)
                jax.random.normal = stub_factory(e)
                imp.append(p.sample(key, n))
            out["imp"] = imp
        finally:
            jax.random.normal = orig
        return out

    def claims(I, O, ops):
        S, mu, z = I["S"], I["mu"], I["z"]
        cl = []
        x, x0 = O["x"], O["x0"]
        # L_r[:, j] = response to the unit impulse in coordinate j (taken from draw 0)
        L = ops.zeros((R, D, D))
        for r in range(R):
            for j in range(D):
                for i in range(D):
                    L[r, i, j] = O["imp"][j][0, r, i] - x0[0, r, i]
        exp = ops.zeros((n, R, D))
        for k in range(n):
            for r in range(R):
                for i in range(D):
                    t = mu[r, i]
                    for j in range(D):
                        t = t + L[r, i, j] * z[k, r, j]
                    exp[k, r, i] = t
        cl.append(("draw[n,r] = mu_r + L_r z[n,r] (affine, no cross-component / cross-draw terms, same L_r for every draw)", x, exp))
        cl.append(("zero stream gives the mean", x0, np.broadcast_to(mu[None], (n, R, D))))
        LLt = np.einsum("rij,rkj->rik", L, L)
        cl.append(("L_r L_r' = Sigma_r", LLt, S))
        return cl

    # covariances are arbitrary (no lower bound on their scale): a sat verdict is also replayed at standard deviations ~1e-4
    return Case(cid, PROP, cfg, declare, fn, claims, timeout=timeout, replay_scales=(("S_",), [1e-4, 1e-6]))


def sample_after_update_case(kind, R, D, n, timeout=400):
    """the sequence sample -> update(idx, q) -> sample on ONE object: the second call must draw from the UPDATED law
    (nothing cached by the first call may survive the update)"""
    cid = f"C19/sample-after-update/{kind}/R{R}D{D}n{n}"
    cfg = dict(op="sample, update, sample", density=kind, R=R, D=D, num_samples=n)

    def declare(b):
        (b.spd if kind == "pdf" else b.diag)("S", R, D); b.free("mu", (R, D))
        (b.spd if kind == "pdf" else b.diag)("S2", 1, D); b.free("mu2", (1, D))
        b.free("z", (n, R, D))

    def fn(**A):
        import jax
        import jax.numpy as jnp
        factor, measure, pdf, conditional = gt()
        cls = pdf.GaussianPDF if kind == "pdf" else pdf.GaussianDiagPDF
        p = cls(Sigma=A["S"], mu=A["mu"])
        key = jax.random.PRNGKey(0)
        orig = jax.random.normal

        def stub(k, shape=(), dtype=None, **kw):
            assert tuple(shape) == tuple(A["z"].shape), (shape, A["z"].shape)
            return A["z"]
        try:
            jax.random.normal = stub
            first = p.sample(key, n)
            p.update(jnp.array([R - 1]), cls(Sigma=A["S2"], mu=A["mu2"]))
            second = p.sample(key, n)
        finally:
            jax.random.normal = orig
        return {"first": first, "second": second, "Sigma_after": p.Sigma, "mu_after": p.mu}

    def claims(I, O, ops):
        S, mu, z = I["S"].copy(), I["mu"].copy(), I["z"]
        S[R - 1] = I["S2"][0]; mu[R - 1] = I["mu2"][0]
        cl = [("update: Sigma of the addressed component replaced", O["Sigma_after"], S), ("update: mu replaced", O["mu_after"], mu)]
        # x[k, r] - mu_r = L_r z[k, r] with L_r L_r' = Sigma_r (updated): checked through the covariance of the linear map,
        # (x - mu)(x - mu)' summed against the symbolic z is awkward; use instead the defining relation with the Cholesky factor
        exp = ops.zeros((n, R, D))
        for r in range(R):
            L = _chol(ops, S[r])
            for k in range(n):
                for i in range(D):
                    t = mu[r, i]
                    for j in range(D):
                        t = t + L[i, j] * z[k, r, j]
                    exp[k, r, i] = t
        cl.append(("second sample = mu_r + chol(Sigma_r) z with the UPDATED mu_r, Sigma_r", O["second"], exp))
        return cl

    return Case(cid, PROP, cfg, declare, fn, claims, timeout=timeout, replay_scales=(("S_", "S2_"), [1e-4]))


def sample_route_case(route, R, D, n, timeout=400):
    """sample() on a density that was not built by the user but RETURNED by another library operation: the draws must follow
    the law that operation is specified to return (oracle: spec side), i.e. x = m_r + L_r z with L_r L_r' = expected covariance"""
    cid = f"C19/sample-route/{route}/R{R}D{D}n{n}"
    cfg = dict(op=f"{route}, then sample", R=R, D=D, num_samples=n)
    idx = {"slice": [R - 1, 0], "marginal": [D - 1, 0][:max(1, D - 1)], "condition": [D - 1], "linsum": None, "lambda-measure": None}[route]
    Ro = 2 if route == "slice" else R
    Do = {"slice": D, "marginal": len(idx or []), "condition": D - 1, "linsum": D - 1, "lambda-measure": D}[route]

    def declare(b):
        b.spd("S", R, D); b.free("mu", (R, D)); b.free("z", (n, Ro, Do))
        if route == "condition":
            b.free("xb", (1, 1))
        if route == "linsum":
            b.free("W", (1, Do, D)); b.free("bb", (1, Do))

    def build(A):
        import jax.numpy as jnp
        factor, measure, pdf, conditional = gt()
        if route == "lambda-measure":
            # S plays the role of the PRECISION of a measure; its density is N(S^-1 nu, S^-1)
            m = measure.GaussianMeasure(Lambda=A["S"], nu=A["mu"])
            return m.get_density()
        p = pdf.GaussianPDF(Sigma=A["S"], mu=A["mu"])
        if route == "slice":
            return p.slice(jnp.array(idx))
        if route == "marginal":
            return p.get_marginal(jnp.array(idx))
        if route == "condition":
            return p.condition_on(jnp.array(idx))(A["xb"])
        if route == "linsum":
            return p.get_density_of_linear_sum(jnp.tile(A["W"], (R, 1, 1)), jnp.tile(A["bb"], (R, 1)))

    def fn(**A):
        import jax
        import jax.numpy as jnp
        key = jax.random.PRNGKey(0)
        orig = jax.random.normal
        shape = (n, Ro, Do)

        def stub_factory(zval):
            def stub(k, shape=(), dtype=None, **kw):
                assert tuple(shape) == tuple(zval.shape), (shape, zval.shape)
                return zval
            return stub
        out = {}
        q = build(A)
        try:
            jax.random.normal = stub_factory(A["z"])
            out["x"] = q.sample(key, n)
            jax.random.normal = stub_factory(jnp.zeros(shape))
            out["x0"] = q.sample(key, n)
            imp = []
            for j in range(Do):
                jax.random.normal = stub_factory(jnp.zeros(shape).at[:, :, j].set(1.0))
                imp.append(q.sample(key, n))
            out["imp"] = imp
        finally:
            jax.random.normal = orig
        return out

    def claims(I, O, ops):
        S, mu, z = I["S"], I["mu"], I["z"]
        m_exp = ops.zeros((Ro, Do)); S_exp = ops.zeros((Ro, Do, Do))
        for r in range(Ro):
            if route == "slice":
                m_exp[r] = mu[idx[r]]; S_exp[r] = S[idx[r]]
            elif route == "marginal":
                m_exp[r] = mu[r][idx]; S_exp[r] = S[r][np.ix_(idx, idx)]
            elif route == "condition":
                a = [i for i in range(D) if i not in idx]
                M, b, Sc = spec.schur_conditional(ops, mu[r], S[r], a, idx)
                m_exp[r] = spec.mv(M, I["xb"][0]) + b; S_exp[r] = Sc
            elif route == "linsum":
                W = I["W"][0]
                m_exp[r] = spec.mv(W, mu[r]) + I["bb"][0]; S_exp[r] = spec.mm(spec.mm(W, S[r]), W.T)
            elif route == "lambda-measure":
                Si, _ = spec.inv(ops, S[r])
                m_exp[r] = spec.mv(Si, mu[r]); S_exp[r] = Si
        x, x0 = O["x"], O["x0"]
        L = ops.zeros((Ro, Do, Do))
        for r in range(Ro):
            for j in range(Do):
                for i in range(Do):
                    L[r, i, j] = O["imp"][j][0, r, i] - x0[0, r, i]
        exp = ops.zeros((n, Ro, Do))
        for k in range(n):
            for r in range(Ro):
                for i in range(Do):
                    t = m_exp[r, i]
                    for j in range(Do):
                        t = t + L[r, i, j] * z[k, r, j]
                    exp[k, r, i] = t
        return [(f"{route}: draw[n,r] = m_r + L_r z[n,r] with m_r the mean of the law the operation is specified to return", x, exp),
                (f"{route}: L_r L_r' = covariance of the law the operation is specified to return", np.einsum("rij,rkj->rik", L, L), S_exp)]

    return Case(cid, PROP, cfg, declare, fn, claims, timeout=timeout)


def _chol(ops, S):
    """lower Cholesky factor by the textbook recursion (oracle side)"""
    D = S.shape[0]
    L = ops.zeros((D, D))
    for i in range(D):
        for j in range(i + 1):
            t = S[i, j]
            for k in range(j):
                t = t - L[i, k] * L[j, k]
            L[i, j] = ops.sqrt(t) if i == j else t / L[j, j]
    return L


def cases(tier, seed=0):
    out = [sample_case("pdf", 2, 2, 2), sample_case("pdf", 1, 3, 2), sample_case("pdf", 2, 1, 1), sample_case("pdf", 2, 3, 1),
           sample_case("diagpdf", 2, 2, 2), sample_after_update_case("pdf", 2, 2, 1), sample_after_update_case("diagpdf", 2, 2, 2),
           sample_route_case("slice", 3, 2, 2), sample_route_case("marginal", 2, 3, 1), sample_route_case("condition", 2, 2, 2),
           sample_route_case("linsum", 2, 2, 2), sample_route_case("lambda-measure", 2, 2, 1)]
    if tier == "thorough":
        out += [sample_case("pdf", 3, 3, 3, timeout=1200), sample_case("pdf", 3, 2, 2), sample_case("diagpdf", 3, 3, 2), sample_case("pdf", 1, 1, 3),
                sample_route_case("condition", 2, 3, 2, timeout=1200), sample_route_case("linsum", 2, 3, 2, timeout=1200),
                sample_route_case("lambda-measure", 1, 3, 2, timeout=1200), sample_route_case("marginal", 3, 3, 2)]
    return out
