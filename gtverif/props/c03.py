"""C03: polynomial integrals equal total mass x exact Gaussian moment (Stein-recursion oracle)."""
from fractions import Fraction
import itertools
import numpy as np

from ..case import Case
from .. import spec
from .common import gt

PROP = "C03"
EXTRA_DRAWS = 0      # the thorough tier of this property is long already: no additional draws of the generic rationals

BOUNDS = {
    "quick": "all 12 keys; D=2 fully symbolic with (K,L,M) permutations of (1,2,3), R in {1,2}, coefficients shared / per component / mixed / defaulted, densities and un-normalised measures; larger dimensions with the covariance bound to generic rationals and the mean and all coefficient vectors symbolic: D=4 (all coefficient matrices symbolic), D=5 and D=6 (one coefficient matrix symbolic, the others generic rationals; D=6 up to third order)",
    "thorough": "D=3 fully symbolic with (K,L,M)=(2,3,4),(4,2,3); R=3; every permutation of (1,2,3); D=6 fourth-order keys with (K,L,M)=(5,4,3),(2,5,4), R=2",
}
ASSUMPTIONS = ["bit-exact 'integer mode' is not a separate claim: the identity is decided over exact reals, which implies it wherever floats are exact",
               "semi-symbolic cases: the blocks listed under concrete_blocks are seeded generic rationals (a sample in those blocks, universally quantified in the rest)"]


# key -> (list of (mat kwarg, vec kwarg, dim letter), output structure)
AFF = {
    "(Ax+a)": [("A_mat", "a_vec", "K")],
    "(Ax+a)'(Bx+b)": [("A_mat", "a_vec", "K"), ("B_mat", "b_vec", "K")],
    "(Ax+a)(Bx+b)'": [("A_mat", "a_vec", "K"), ("B_mat", "b_vec", "L")],
    "(Ax+a)(Bx+b)'(Cx+c)": [("A_mat", "a_vec", "K"), ("B_mat", "b_vec", "L"), ("C_mat", "c_vec", "L")],
    "(Ax+a)'(Bx+b)(Cx+c)'": [("A_mat", "a_vec", "K"), ("B_mat", "b_vec", "K"), ("C_mat", "c_vec", "L")],
    "(Ax+a)'(Bx+b)(Cx+c)'(Dx+d)": [("A_mat", "a_vec", "K"), ("B_mat", "b_vec", "K"), ("C_mat", "c_vec", "L"), ("D_mat", "d_vec", "L")],
    "(Ax+a)(Bx+b)'(Cx+c)(Dx+d)'": [("A_mat", "a_vec", "K"), ("B_mat", "b_vec", "L"), ("C_mat", "c_vec", "L"), ("D_mat", "d_vec", "M")],
}
OTHER = ["1", "x", "xx'", "x(A'x + a)x'", "xb'xx'"]
ALL_KEYS = OTHER + list(AFF)


def _psum(ps):
    out = {}
    for p in ps:
        out = spec.p_add(out, p)
    return out


def oracle_polys(key, forms, D, ops):
    """forms: list of lists of affine polynomials (one list per affine form, entries over its dim).
    returns (shape, dict index->polynomial) of the integrand, entry by entry"""
    pm = spec.p_mul
    if key == "(Ax+a)":
        A, = forms
        return (len(A),), {(k,): A[k] for k in range(len(A))}
    if key == "(Ax+a)'(Bx+b)":
        A, B = forms
        return (), {(): _psum([pm(A[k], B[k]) for k in range(len(A))])}
    if key == "(Ax+a)(Bx+b)'":
        A, B = forms
        return (len(A), len(B)), {(k, l): pm(A[k], B[l]) for k in range(len(A)) for l in range(len(B))}
    if key == "(Ax+a)(Bx+b)'(Cx+c)":
        A, B, C = forms
        inner = _psum([pm(B[l], C[l]) for l in range(len(B))])
        return (len(A),), {(k,): pm(A[k], inner) for k in range(len(A))}
    if key == "(Ax+a)'(Bx+b)(Cx+c)'":
        A, B, C = forms
        inner = _psum([pm(A[k], B[k]) for k in range(len(A))])
        return (len(C),), {(l,): pm(inner, C[l]) for l in range(len(C))}
    if key == "(Ax+a)'(Bx+b)(Cx+c)'(Dx+d)":
        A, B, C, E = forms
        i1 = _psum([pm(A[k], B[k]) for k in range(len(A))])
        i2 = _psum([pm(C[l], E[l]) for l in range(len(C))])
        return (), {(): pm(i1, i2)}
    if key == "(Ax+a)(Bx+b)'(Cx+c)(Dx+d)'":
        A, B, C, E = forms
        inner = _psum([pm(B[l], C[l]) for l in range(len(B))])
        return (len(A), len(E)), {(k, m): pm(pm(A[k], inner), E[m]) for k in range(len(A)) for m in range(len(E))}
    raise KeyError(key)


def _case(key, mkind, mode, D, R, dims, timeout=300, semi=(), updated=False):
    """mkind: 'pdf' | 'measure'; mode: shared | percomp | mixed_mat_shared | mixed_vec_shared |
    default_mat | default_vec | default_all;  dims: dict K,L,M"""
    dd = "".join(f"{k}{v}" for k, v in sorted(dims.items()))
    cid = f"C03/{key}/{mkind}/{mode}/D{D}R{R}{dd}" + ("/semi-" + "-".join(semi) if semi else "") + ("/after-update" if updated else "")
    cfg = dict(key=key, measure=mkind, coefficients=mode, D=D, R=R, concrete_blocks=list(semi), **dims)
    forms = AFF.get(key, [])

    def has_mat(i):
        return mode not in ("default_mat", "default_all")

    def has_vec(i):
        return mode not in ("default_vec", "default_all")

    def mat_percomp():
        return mode in ("percomp", "mixed_vec_shared")

    def vec_percomp():
        return mode in ("percomp", "mixed_mat_shared")

    def dim_of(letter):
        return dims[letter] if has_mat(0) else D

    def declare(b):
        if updated:
            b.spd("S0", R, D); b.free("mu0", (R, D))      # the density before update(): every component is replaced
        if mkind == "pdf":
            (b.const("S", b.rat_spd(R, D)) if "S" in semi else b.spd("S", R, D)); b.free("mu", (R, D))
        else:
            (b.const("Lam", b.rat_spd(R, D)) if "S" in semi else b.spd("Lam", R, D)); b.free("nu", (R, D)); b.free("lb", (R,))
        for fi, (mn, vn, letter) in enumerate(forms):
            Kd = dim_of(letter)
            if has_mat(0):
                shp = (R, Kd, D) if mat_percomp() else (Kd, D)
                # semi "mats": every coefficient matrix but one (rotating with the key) is bound to generic rationals
                if "mats" in semi and fi != (len(key) % max(1, len(forms))):
                    b.const(mn, b.rat_array(shp, nonzero=True))
                else:
                    b.free(mn, shp)
            if has_vec(0):
                b.free(vn, (R, Kd) if vec_percomp() else (Kd,))
        if key == "x(A'x + a)x'":
            b.free("A_mat", (R, 1, D) if mode == "percomp" else (1, D))
            b.free("a_vec", (R, 1) if mode == "percomp" else (1,))
        if key == "xb'xx'":
            b.free("b_vec", (R, D) if mode == "percomp" else (D,))

    def fn(**A):
        factor, measure, pdf, conditional = gt()
        if mkind == "pdf" and updated:
            import jax.numpy as jnp
            p = pdf.GaussianPDF(Sigma=A["S0"], mu=A["mu0"])
            p.integrate("x")
            p.update(jnp.arange(R), pdf.GaussianPDF(Sigma=A["S"], mu=A["mu"]))
        elif mkind == "pdf":
            p = pdf.GaussianPDF(Sigma=A["S"], mu=A["mu"])
        else:
            p = measure.GaussianMeasure(Lambda=A["Lam"], nu=A["nu"], ln_beta=A["lb"])
        kw = {k: v for k, v in A.items() if k.endswith("_mat") or k.endswith("_vec")}
        return {"int": p.integrate(key, **kw)}

    def claims(I, O, ops):
        out = O["int"]
        exp = ops.zeros(out.shape)
        for r in range(R):
            if mkind == "pdf":
                mu, Sg = I["mu"][r], I["S"][r]
                mass = ops.one()
            else:
                Sg, _ = spec.inv(ops, I["Lam"][r])
                mu = spec.mv(Sg, I["nu"][r])
                mass = ops.exp(spec.ln_mass(ops, I["Lam"][r], I["nu"][r], I["lb"][r]))
            mom = spec.Moments(ops, mu, Sg)
            if key == "1":
                exp[r] = mass
                continue
            if key == "x":
                for i in range(D):
                    exp[r, i] = mass * mom.expect(spec.p_var(ops, D, i))
                continue
            if key == "xx'":
                for i in range(D):
                    for j in range(D):
                        exp[r, i, j] = mass * mom.expect(spec.p_mul(spec.p_var(ops, D, i), spec.p_var(ops, D, j)))
                continue
            if key == "x(A'x + a)x'":
                Am = I["A_mat"][r, 0] if mode == "percomp" else I["A_mat"][0]
                av = I["a_vec"][r, 0] if mode == "percomp" else I["a_vec"][0]
                mid = spec.p_affine(ops, Am, av)
                for i in range(D):
                    for j in range(D):
                        exp[r, i, j] = mass * mom.expect(spec.p_mul(spec.p_mul(spec.p_var(ops, D, i), mid), spec.p_var(ops, D, j)))
                continue
            if key == "xb'xx'":
                bv = I["b_vec"][r] if mode == "percomp" else I["b_vec"]
                mid = spec.p_affine(ops, bv, ops.zero())
                for i in range(D):
                    for j in range(D):
                        exp[r, i, j] = mass * mom.expect(spec.p_mul(spec.p_mul(spec.p_var(ops, D, i), mid), spec.p_var(ops, D, j)))
                continue
            fl = []
            for (mn, vn, letter) in forms:
                Kd = dim_of(letter)
                if has_mat(0):
                    M = I[mn][r] if mat_percomp() else I[mn]
                else:
                    M = spec.eye(ops, D)       # documented default: identity
                if has_vec(0):
                    v = I[vn][r] if vec_percomp() else I[vn]
                else:
                    v = ops.zeros((Kd,))       # documented default: zero vector
                fl.append([spec.p_affine(ops, M[k], v[k]) for k in range(Kd)])
            shape, polys = oracle_polys(key, fl, D, ops)
            assert tuple(out.shape[1:]) == tuple(shape), (out.shape, shape)
            for idx, poly in polys.items():
                exp[(r,) + idx] = mass * mom.expect(poly)
        return [(f"integrate({key}) = mass x exact moment", out, exp)]

    return Case(cid, PROP, cfg, declare, fn, claims, timeout=timeout)


def cases(tier, seed=0):
    out = []
    perms = list(itertools.permutations((1, 2, 3)))
    if tier == "quick":
        for key in OTHER:
            for mk in ("pdf", "measure"):
                out.append(_case(key, mk, "shared", 2, 2, {}))
                if key in ("x(A'x + a)x'", "xb'xx'"):
                    out.append(_case(key, mk, "percomp", 2, 2, {}))
        for n, key in enumerate(AFF):
            letters = sorted({f[2] for f in AFF[key]})
            # two dimension assignments with pairwise different K,L,M, D=2
            for pi in (perms[(n) % 6], perms[(n + 3) % 6]):
                dims = {l: pi["KLM".index(l)] for l in letters}
                out.append(_case(key, "pdf", "shared", 2, 1, dims))
            dims = {l: perms[(n + 1) % 6]["KLM".index(l)] for l in letters}
            out.append(_case(key, "pdf", "percomp", 2, 2, dims))
            out.append(_case(key, "measure", "shared", 2, 2, dims))
            dims2 = {l: perms[(n + 2) % 6]["KLM".index(l)] for l in letters}
            out.append(_case(key, "pdf", "mixed_mat_shared", 2, 2, dims2))
            out.append(_case(key, "pdf", "mixed_vec_shared", 2, 2, dims2))
            out.append(_case(key, "pdf", "default_vec", 2, 2, dims2))
            out.append(_case(key, "pdf", "default_mat", 2, 2, dims2))
            out.append(_case(key, "pdf", "default_all", 2, 1, dims2))
    else:
        for key in OTHER:
            for mk in ("pdf", "measure"):
                for (D, R) in ((2, 2), (3, 1), (1, 3), (3, 2)):
                    out.append(_case(key, mk, "shared", D, R, {}))
                    if key in ("x(A'x + a)x'", "xb'xx'") and R > 1:
                        out.append(_case(key, mk, "percomp", D, R, {}))
        for n, key in enumerate(AFF):
            letters = sorted({f[2] for f in AFF[key]})
            for pi in perms:
                dims = {l: pi["KLM".index(l)] for l in letters}
                out.append(_case(key, "pdf", "shared", 2, 1, dims, timeout=600))
                out.append(_case(key, "pdf", "percomp", 2, 2, dims, timeout=600))
            seen = set()
            for pi in perms[:3]:
                dims = {l: pi["KLM".index(l)] for l in letters}
                if tuple(sorted(dims.items())) in seen:
                    continue
                seen.add(tuple(sorted(dims.items())))
                out.append(_case(key, "measure", "shared", 2, 2, dims, timeout=600))
                out.append(_case(key, "measure", "percomp", 2, 2, dims, timeout=600))
                for mode in ("mixed_mat_shared", "mixed_vec_shared", "default_vec", "default_mat", "default_all"):
                    out.append(_case(key, "pdf", mode, 2, 2, dims, timeout=600))
            # D = 3 and (K,L,M) = (2,3,4)
            dims = {l: {"K": 2, "L": 3, "M": 4}[l] for l in letters}
            out.append(_case(key, "pdf", "shared", 3, 1, dims, timeout=900))
            dims = {l: {"K": 4, "L": 2, "M": 3}[l] for l in letters}
            out.append(_case(key, "pdf", "shared", 3, 1, dims, timeout=900))
            out.append(_case(key, "pdf", "percomp", 2, 3, {l: {"K": 3, "L": 1, "M": 2}[l] for l in letters}, timeout=900))
    # integrals of a density that was updated in place beforehand (caches of the replaced components must not survive)
    for key in ("1", "x", "xx'", "(Ax+a)'(Bx+b)", "(Ax+a)(Bx+b)'(Cx+c)"):
        letters = sorted({f[2] for f in AFF.get(key, [])})
        out.append(_case(key, "pdf", "shared", 2, 2, {l: {"K": 2, "L": 1, "M": 3}[l] for l in letters}, updated=True))
    # larger dimensions (the quantifier goes to D=6, K,L,M<=5): covariance bound to generic rationals, mean and every
    # coefficient vector symbolic, one coefficient matrix symbolic ("mats") or all of them (D=4)
    big = [(4, 1, {"K": 2, "L": 3, "M": 1}, ("S",)), (5, 1, {"K": 3, "L": 2, "M": 4}, ("S", "mats")), (6, 1, {"K": 5, "L": 4, "M": 3}, ("S", "mats"))]
    if tier == "thorough":
        big += [(4, 2, {"K": 3, "L": 1, "M": 2}, ("S",)), (6, 2, {"K": 2, "L": 5, "M": 4}, ("S", "mats")), (5, 1, {"K": 4, "L": 5, "M": 2}, ("S",))]
    for key in AFF:
        letters = sorted({f[2] for f in AFF[key]})
        for (D_, R_, dm, sm) in big:
            if tier == "quick" and D_ == 6 and len(AFF[key]) == 4:
                continue        # the D=6 quartic cases take minutes: thorough tier only
            out.append(_case(key, "pdf", "shared" if R_ == 1 else "percomp", D_, R_, {l: dm[l] for l in letters}, timeout=1500, semi=sm))
    for key in ("xx'", "x(A'x + a)x'", "xb'xx'"):
        out.append(_case(key, "pdf", "shared", 5, 1, {}, timeout=900, semi=("S",)))
        out.append(_case(key, "measure", "percomp", 4, 2, {}, timeout=900, semi=("S",)))
    # de-duplicate ids (same dims can arise for keys with fewer letters)
    seen, uniq = set(), []
    for c in out:
        if c.id not in seen:
            seen.add(c.id); uniq.append(c)
    return uniq
