"""C06: conditioning on coordinates satisfies p(x_a | x_b) p(x_b) = p(x)."""
from fractions import Fraction
import itertools
import numpy as np

from ..case import Case
from .. import spec
from .common import gt, fields, invariant_claims

PROP = "C06"

BOUNDS = {
    "quick": "D=4 / D=5 with an explicit complement of 3-4 coordinates in every order (covariance concrete, means and points symbolic); D=2 and D=3, every proper non-empty subset b in every order (condition_on) and with an explicit ordered complement (condition_on_explicit), R<=2, fully symbolic",
    "thorough": "adds D=4 with the covariance bound to generic rationals (means and points symbolic), R=3",
}
ASSUMPTIONS = ["index lists are static configuration (enumerated), parameter values and evaluation points are decided by the solver"]


def cond_case(D, R, b_idx, a_idx=None, semi=(), timeout=400, before=()):
    """before: index lists for which condition_on is called on the SAME density object first (results discarded)"""
    explicit = a_idx is not None
    a_sorted = sorted(set(range(D)) - set(b_idx))
    a = list(a_idx) if explicit else a_sorted
    cid = f"C06/{'condition_on_explicit' if explicit else 'condition_on'}/D{D}R{R}/b{''.join(map(str, b_idx))}" + (f"a{''.join(map(str, a))}" if explicit else "") + ("/semi-" + "-".join(semi) if semi else "") + ("/after-" + "-".join("".join(map(str, q)) for q in before) if before else "")
    cfg = dict(op="condition_on_explicit" if explicit else "condition_on", D=D, R=R, b=list(b_idx), a=a, concrete_blocks=list(semi), earlier_calls_on_the_same_object=[list(q) for q in before])
    Da, Db = len(a), len(b_idx)
    NP = 2      # evaluation points: cond(x_b) returns R*NP components laid out r*NP+n

    def declare(bl):
        if "S" in semi:
            bl.const("S", bl.rat_spd(R, D))
        else:
            bl.spd("S", R, D)
        bl.free("mu", (R, D)); bl.free("x", (NP, D))

    def fn(**A):
        import jax.numpy as jnp
        factor, measure, pdf, conditional = gt()
        p = pdf.GaussianPDF(Sigma=A["S"], mu=A["mu"])
        bi = jnp.array(b_idx); ai = jnp.array(a)
        for q in before:
            p.condition_on(jnp.array(list(q))); p.get_marginal(jnp.array(list(q)))
        c = p.condition_on_explicit(bi, ai) if explicit else p.condition_on(bi)
        x = A["x"]
        xa, xb = x[:, ai], x[:, bi]
        pm = p.get_marginal(bi)
        cx = c.condition_on_x(xb)
        return {"cond": jnp.stack([cx.evaluate_ln(xa[n:n + 1])[:, 0] for n in range(NP)], axis=1), "marg": pm.evaluate_ln(xb), "joint": p.evaluate_ln(x),
                "cond_fields": fields(cx),
                "c": {"M": c.M, "b": c.b, "Sigma": c.Sigma, "Lambda": c.Lambda, "ln_det_Sigma": c.ln_det_Sigma}}

    def claims(I, O, ops):
        S, mu, x = I["S"], I["mu"], I["x"]
        cl = []
        lhs = ops.zeros((R, NP)); rhs = ops.zeros((R, NP))
        eM = ops.zeros((R, Da, Db)); eb = ops.zeros((R, Da)); eS = ops.zeros((R, Da, Da))
        for r in range(R):
            for n in range(NP):
                # component r*NP+n of cond(x_b) is p(. | x_b = x_b[n]) of density r
                lhs[r, n] = O["cond"][r * NP + n, n] + O["marg"][r, n]
                rhs[r, n] = spec.logN(ops, x[n], mu[r], S[r])
            M_, b_, Sc = spec.schur_conditional(ops, mu[r], S[r], a, list(b_idx))
            eM[r], eb[r], eS[r] = M_, b_, Sc
        cl.append(("p(x_a|x_b) p(x_b) = p(x)  (library conditional x library marginal vs N(x; mu, Sigma))", lhs, rhs))
        cl.append(("joint.evaluate_ln = N(x; mu, Sigma)", O["joint"], rhs))
        cl += invariant_claims(ops, O["cond_fields"], "cond(x_b) [R*N components]")
        cl.append(("conditional M = Sigma_ab Sigma_bb^-1 (rows ordered as a)", O["c"]["M"], eM))
        cl.append(("conditional b = mu_a - M mu_b", O["c"]["b"], eb))
        cl.append(("conditional Sigma = Schur complement of the covariance", O["c"]["Sigma"], eS))
        cl += invariant_claims(ops, {"Lambda": O["c"]["Lambda"], "Sigma": O["c"]["Sigma"], "ln_det_Sigma": O["c"]["ln_det_Sigma"]}, "conditional")
        return cl

    return Case(cid, PROP, cfg, declare, fn, claims, timeout=timeout)


def _proper_ordered(D):
    out = []
    for k in range(1, D):
        out += [list(p) for p in itertools.permutations(range(D), k)]
    return out


def cases(tier, seed=0):
    out = []
    for b in _proper_ordered(2):
        out.append(cond_case(2, 2, b))
        a = sorted(set(range(2)) - set(b))
        out.append(cond_case(2, 2, b, a_idx=a))
    for b in _proper_ordered(3):
        out.append(cond_case(3, 2 if len(b) == 2 else 1, b, timeout=600))
        rest = sorted(set(range(3)) - set(b))
        for a in itertools.permutations(rest):
            if tier == "quick" and list(a) == rest and len(rest) > 1:
                continue    # the ascending order is what condition_on already covers
            out.append(cond_case(3, 1, b, a_idx=list(a), timeout=600))
    # D >= 4: an explicit complement of 3 or 4 coordinates in EVERY order (3-cycles are the permutations that differ from
    # their own inverse); covariance bound to generic rationals, means and evaluation points symbolic
    for a in itertools.permutations([0, 2, 3]):
        out.append(cond_case(4, 2, [1], a_idx=list(a), semi=("S",), timeout=900))
    out.append(cond_case(5, 1, [4, 1], a_idx=[3, 0, 2], semi=("S",), timeout=900))
    out.append(cond_case(5, 2, [2], a_idx=[4, 0, 3, 1], semi=("S",), timeout=900))
    out.append(cond_case(4, 2, [3, 0], semi=("S",), timeout=900))
    # the same index set requested twice from one object, in different orders (and other sets in between)
    out.append(cond_case(3, 2, [2, 0], before=([0, 2],), timeout=600))
    out.append(cond_case(3, 1, [1, 0], before=([0, 1], [2]), timeout=600))
    out.append(cond_case(4, 2, [3, 1], semi=("S",), before=([1, 3], [0]), timeout=900))
    out.append(cond_case(3, 1, [0, 2], a_idx=[1], before=([2, 0],), timeout=600))
    if tier == "thorough":
        for b in ([0], [3, 1], [2, 0, 3], [1, 3], [3], [0, 2, 1]):
            out.append(cond_case(4, 2, b, semi=("S",), timeout=1500))
        out.append(cond_case(4, 1, [3, 0], a_idx=[2, 1], semi=("S",), timeout=1500))
        out.append(cond_case(3, 3, [2, 0], timeout=1500))
        out.append(cond_case(2, 3, [1], timeout=900))
    return out
