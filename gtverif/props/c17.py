"""C17 (coherence clause): conditioning a heteroscedastic conditional on x yields a Gaussian with mean
Mx+b and covariance AA' + A_k diag(link(Wx+w0)) A_k' whose precision and log-determinant are the
inverse and log-determinant of that covariance.

The link value is made an ARBITRARY admissible number by re-parametrising the offset (onto):
  exp, cosh-1 :  w0 = ln e - w'x  with e > 0 a fresh variable  (exp(h) = e, cosh(h) = (e + 1/e)/2)
  step, relu  :  w0 = +-t - w'x   with t > 0                    (h = +-t: both branches of the link)
NOT covered (declined, see DESIGN.md): 'bound <= true expectation' / quadratic tightness -- the
right-hand side has no closed form; the step-link equality and zero-weight exactness need ln/sqrt of
sums (outside the symbolic domain)."""
from fractions import Fraction
import itertools
import numpy as np

from ..case import Case
from .. import spec
from .common import gt, fields, invariant_claims, density_is_normalised_claims
from .c16 import make_het, HET

PROP = "C17"

BOUNDS = {
    "quick": "all four links; (Dy,Da,Dk) in {(1,1,1),(2,2,1),(2,2,2)} (A square) and {(1,2,1),(1,2,2),(2,3,2)} (A wide, Da>Dy); Dx<=2; N=2 points; link values arbitrary (exp, cosh-1) or on either side of the kink (step, relu)",
    "thorough": "adds Dy=Da=3 with A bound to generic rationals, Dx=3",
}
ASSUMPTIONS = ["only the coherence clause of C17 is claimed; the lower-bound / tightness clauses are declined (no closed-form right-hand side; the property's own oracle is adaptive quadrature)"]


def coherence_case(link, Dx, Dy, Da, Dk, signs=None, semi=(), timeout=600, prop=PROP):
    sg = "".join("p" if s > 0 else "m" for s in (signs or []))
    cid = f"{prop}/het-cond-x/{link}/Dx{Dx}Dy{Dy}Da{Da}Dk{Dk}" + (f"/h{sg}" if sg else "") + ("/semi-" + "-".join(semi) if semi else "")
    cfg = dict(clause="coherence of condition_on_x", link=link, Dx=Dx, Dy=Dy, Da=Da, Dk=Dk, h_signs=signs, concrete_blocks=list(semi))
    N = 2

    def declare(b):
        b.free("M", (1, Dy, Dx)); b.free("bv", (1, Dy))
        if "A" in semi:
            while True:
                Am = b.rat_array((1, Dy, Da), nonzero=True)
                G = np.array(Am[0].dot(Am[0].T).tolist(), dtype=float)
                if abs(np.linalg.det(G)) > 1e-3:
                    break
            b.const("A", Am)
        else:
            b.free("A", (1, Dy, Da))
        b.free("x", (1, Dx)); b.free("Ww", (Dk, Dx))
        # the value the link's argument takes at the point x (see module docstring)
        b.pos("e", (Dk,))

        def w0(I, ops):
            out = ops.zeros((Dk, Dx + 1))
            for k in range(Dk):
                dot = ops.zero()
                for j in range(Dx):
                    dot = dot + I["Ww"][k, j] * I["x"][0, j]
                    out[k, 1 + j] = I["Ww"][k, j]
                if link in ("exp", "cosh"):
                    out[k, 0] = ops.log(I["e"][k]) - dot
                else:
                    out[k, 0] = I["e"][k] * ops.c(signs[k]) - dot
            return out
        b.derived("W", (Dk, Dx + 1), w0)

    def fn(**A):
        c = make_het(link, {"M": A["M"], "bv": A["bv"], "A": A["A"], "W": A["W"]})
        d = c.condition_on_x(A["x"])
        S, L, ld = c.get_conditional_cov(A["x"], invert=True)
        return {"f": fields(d), "cov_only": c.get_conditional_cov(A["x"]), "S": S, "L": L, "ld": ld, "mu": c.get_conditional_mu(A["x"])}

    def claims(I, O, ops):
        M, bb, A_ = I["M"][0], I["bv"][0], I["A"][0]
        x = I["x"][0]
        dvals = []
        for k in range(Dk):
            e = I["e"][k]
            if link == "exp":
                dvals.append(e)
            elif link == "cosh":
                dvals.append(ops.c(Fraction(1, 2)) * (e + ops.one() / e) - ops.one())
            elif link == "step":
                dvals.append(ops.one() if signs[k] > 0 else ops.zero())
            else:
                dvals.append(e if signs[k] > 0 else ops.zero())
        Sg = spec.mm(A_, A_.T)
        for k in range(Dk):
            for i in range(Dy):
                for j in range(Dy):
                    Sg[i, j] = Sg[i, j] + A_[i, k] * dvals[k] * A_[j, k]
        mu = spec.mv(M, x) + bb
        cl = [("condition_on_x(x).mu = Mx + b", O["f"]["mu"][0], mu), ("get_conditional_mu", O["mu"][0, 0], mu),
              ("condition_on_x(x).Sigma = AA' + A_k diag(link(Wx+w0)) A_k'", O["f"]["Sigma"][0], Sg),
              ("get_conditional_cov(x)", O["cov_only"][0], Sg), ("get_conditional_cov(x, invert=True)[0]", O["S"][0], Sg)]
        cl += invariant_claims(ops, O["f"], "condition_on_x(x)")
        cl += invariant_claims(ops, {"Lambda": O["L"], "Sigma": O["S"], "ln_det_Sigma": O["ld"]}, "get_conditional_cov(x, invert=True)")
        cl += density_is_normalised_claims(ops, O["f"], "condition_on_x(x)")
        return cl

    return Case(cid, prop, cfg, declare, fn, claims, timeout=timeout)


def cases(tier, seed=0):
    out = []
    shapes = [(1, 1, 1, 1), (2, 2, 2, 1), (2, 2, 2, 2), (1, 1, 2, 1), (1, 1, 2, 2), (2, 2, 3, 2)]   # (Dx, Dy, Da, Dk)
    for link in ("exp", "cosh"):
        for (Dx, Dy, Da, Dk) in shapes:
            out.append(coherence_case(link, Dx, Dy, Da, Dk, semi=("A",) if Da == 3 else ()))
        if tier == "thorough":
            out.append(coherence_case(link, 2, 3, 3, 2, semi=("A",), timeout=1800))
            out.append(coherence_case(link, 3, 2, 2, 2, timeout=1800))
    for link in ("step", "relu"):
        for (Dx, Dy, Da, Dk) in shapes:
            for signs in itertools.product((1, -1), repeat=Dk):
                out.append(coherence_case(link, Dx, Dy, Da, Dk, signs=list(signs), semi=("A",) if Da == 3 else ()))
        if tier == "thorough":
            out.append(coherence_case(link, 2, 3, 3, 2, signs=[1, -1], semi=("A",), timeout=1800))
    return out
