"""C17 (coherence clause): conditioning a heteroscedastic conditional on x yields a Gaussian with mean
Mx+b and covariance AA' + A_k diag(link(Wx+w0)) A_k' whose precision and log-determinant are the
inverse and log-determinant of that covariance.

The link value is made an ARBITRARY admissible number by re-parametrising the offset (onto):
  exp, cosh-1 :  w0 = ln e - w'x  with e > 0 a fresh variable  (exp(h) = e, cosh(h) = (e + 1/e)/2)
  step, relu  :  w0 = +-t - w'x   with t > 0                    (h = +-t: both branches of the link)
Step-link EQUALITY clause (Dx = 1, one noise unit, square A, both signs of the input weight): the value
returned by integrate_log_conditional_y equals the true expectation, which here has a closed form in
Phi / phi (two half-lines with constant covariance) -- decided with Phi atoms (gtverif/phi.py).
Zero-weight EXACTNESS clause (exp, cosh-1): all input weights 0, offsets w0 = +-c (c > 0, both signs): the returned
value equals the expected log-density of the then homoscedastic model.  cosh / tanh / exp of the offset and of the
variational parameter omega = |w0| are made rational by the exp alias T = exp(c/2) (an independent positive field
generator; ln T = c/2 is applied; see symdom.Ctx.exp_subst), the library's while_loop is decided (zero iterations).
Quadratic TIGHTNESS, first-order condition (exp, cosh-1): with W = [w0, eps*wdir] the derivative of the returned value
w.r.t. eps at eps = 0 (jax.jvp through the real code, stop_gradient made transparent) equals the derivative of the true
expectation at eps = 0, which has a closed form although the expectation itself does not; with exactness: gap = o(eps).
'bound <= true expectation' (exp, cosh-1: Dx <= 2; rectified-linear: Dx = 1; one noise unit, square A): by a WITNESS.  With both
variational parameters replaced by arbitrary positive numbers (stub on the instance) the returned value must equal E_p[g] for
an explicit function g that is a pointwise minorant of ln p(y|x) -- by two instances of ln t <= t-1 (rectified-linear) or by
the Jaakkola-Jordan lemma (exp, cosh-1; an axiom of the check).  The right-hand side E_p[g] has a closed form (tilted Gaussians,
half-line moments with Phi atoms) although the true expectation has none.  A failed equality is replayed against QUADRATURE of
the true expectation, and only lb > truth + 1e-6 is reported; otherwise the case ends inconclusive.
NOT covered (declined, see DESIGN.md): the inequality for Dx >= 2 (rectified-linear), several noise units, A with more columns
than rows; tightness beyond the first-order condition; the step equality for Dx >= 2 (truncated moments of a 2-d Gaussian)."""
from fractions import Fraction
import itertools
import numpy as np

from ..case import Case
from .. import spec
from .common import gt, fields, invariant_claims, density_is_normalised_claims
from .c16 import make_het, HET
from ..case import Case

PROP = "C17"

BOUNDS = {
    "quick": "witness-minorant validity of the bound: exp / cosh-1 (Dx,Dy) in {(1,1),(1,2),(2,1)} with one noise unit and (1,2) with two, rectified-linear Dx=1, Dy in {1,2}, both weight signs; zero-weight exactness and first-order tightness (exp, cosh-1): (Dx,Dy=Da,Dk) in {(1,1,1),(2,2,1),(1,2,2)}, every sign pattern of the offsets, offsets != 0, N=1 observation; step-link equality of the bound at Dx=1, Dk=1, Dy=Da in {1,2}, both weight signs; coherence: all four links; (Dy,Da,Dk) in {(1,1,1),(2,2,1),(2,2,2)} (A square) and {(1,2,1),(1,2,2),(2,3,2)} (A wide, Da>Dy); Dx<=2; N=2 points; link values arbitrary (exp, cosh-1) or on either side of the kink (step, relu)",
    "thorough": "adds Dy=Da=3 with A bound to generic rationals, Dx=3",
}
ASSUMPTIONS = ["claimed: the coherence clause (all links), the step-link equality for Dx=1, exactness at zero input weights (exp, cosh-1; non-zero offsets), the first-order tightness condition d gap/d eps = 0 at eps = 0 (exp, cosh-1), and lb <= true expectation by a witness minorant (exp, cosh-1: Dx<=2; rectified-linear: Dx=1; Dk=1, square A); declined: the inequality outside those shapes, tightness beyond first order",
               "witness clause: _get_omega_dagger / _get_omega_star are replaced on the instance by arbitrary positive numbers (the bound must be valid for every value of the variational parameters; their computation is exercised by the exactness / tightness cases); pointwise validity of the witness rests on ln t <= t-1 (rectified-linear) and on the Jaakkola-Jordan lemma phi(h) <= phi(o) + phi'(o)/(2o)(h^2-o^2) for phi = ln 2cosh(./2), ln cosh (an axiom here); a failed equality is replayed against quadrature of the true expectation and only lb > truth + 1e-6 is reported",
               "exp alias: T_k = exp(c_k/2) is an independent positive generator with ln T_k = c_k/2 applied and T_k > 1 assumed; an identity over Q(.., c_k, T_k) holds in particular at T_k = exp(c_k/2) (unsat is sound); models are replayed on the real code",
               "first-order tightness differentiates the real code with jax.jvp after replacing lax.stop_gradient by the identity in the harness process (total derivative of the returned value)"]


def coherence_case(link, Dx, Dy, Da, Dk, signs=None, semi=(), timeout=600, prop=PROP, explicit_Sigma=False):
    """explicit_Sigma: the optional constructor keyword Sigma= is passed with an UNRELATED positive definite matrix; the model's
    homoscedastic covariance is AA' by definition, so the argument must not change anything"""
    sg = "".join("p" if s > 0 else "m" for s in (signs or []))
    cid = f"{prop}/het-cond-x/{link}/Dx{Dx}Dy{Dy}Da{Da}Dk{Dk}" + (f"/h{sg}" if sg else "") + ("/semi-" + "-".join(semi) if semi else "") + ("/explicit-Sigma" if explicit_Sigma else "")
    cfg = dict(clause="coherence of condition_on_x", link=link, Dx=Dx, Dy=Dy, Da=Da, Dk=Dk, h_signs=signs, concrete_blocks=list(semi), explicit_Sigma_argument=explicit_Sigma)
    N = 2

    def declare(b):
        b.free("M", (1, Dy, Dx)); b.free("bv", (1, Dy))
        if "A" in semi:
            while True:
                Am = b.rat_array((1, Dy, Da), nonzero=True)
                G = np.array(Am[0].dot(Am[0].T).tolist(), dtype=float)
                if abs(np.linalg.det(G)) > 1e-3:
                    break
            b.const("A", Am)
        else:
            b.free("A", (1, Dy, Da))
        b.free("x", (1, Dx)); b.free("Ww", (Dk, Dx))
        if explicit_Sigma:
            b.spd("Sarg", 1, Dy)
        # the value the link's argument takes at the point x (see module docstring)
        b.pos("e", (Dk,))

        def w0(I, ops):
            out = ops.zeros((Dk, Dx + 1))
            for k in range(Dk):
                dot = ops.zero()
                for j in range(Dx):
                    dot = dot + I["Ww"][k, j] * I["x"][0, j]
                    out[k, 1 + j] = I["Ww"][k, j]
                if link in ("exp", "cosh"):
                    out[k, 0] = ops.log(I["e"][k]) - dot
                else:
                    out[k, 0] = I["e"][k] * ops.c(signs[k]) - dot
            return out
        b.derived("W", (Dk, Dx + 1), w0)

    def fn(**A):
        if explicit_Sigma:
            from gaussian_toolbox import approximate_conditional as ac
            c = getattr(ac, HET[link])(M=A["M"], b=A["bv"], A=A["A"], W=A["W"], Sigma=A["Sarg"])
        else:
            c = make_het(link, {"M": A["M"], "bv": A["bv"], "A": A["A"], "W": A["W"]})
        d = c.condition_on_x(A["x"])
        S, L, ld = c.get_conditional_cov(A["x"], invert=True)
        return {"f": fields(d), "cov_only": c.get_conditional_cov(A["x"]), "S": S, "L": L, "ld": ld, "mu": c.get_conditional_mu(A["x"])}

    def claims(I, O, ops):
        M, bb, A_ = I["M"][0], I["bv"][0], I["A"][0]
        x = I["x"][0]
        dvals = []
        for k in range(Dk):
            e = I["e"][k]
            if link == "exp":
                dvals.append(e)
            elif link == "cosh":
                dvals.append(ops.c(Fraction(1, 2)) * (e + ops.one() / e) - ops.one())
            elif link == "step":
                dvals.append(ops.one() if signs[k] > 0 else ops.zero())
            else:
                dvals.append(e if signs[k] > 0 else ops.zero())
        Sg = spec.mm(A_, A_.T)
        for k in range(Dk):
            for i in range(Dy):
                for j in range(Dy):
                    Sg[i, j] = Sg[i, j] + A_[i, k] * dvals[k] * A_[j, k]
        mu = spec.mv(M, x) + bb
        cl = [("condition_on_x(x).mu = Mx + b", O["f"]["mu"][0], mu), ("get_conditional_mu", O["mu"][0, 0], mu),
              ("condition_on_x(x).Sigma = AA' + A_k diag(link(Wx+w0)) A_k'", O["f"]["Sigma"][0], Sg),
              ("get_conditional_cov(x)", O["cov_only"][0], Sg), ("get_conditional_cov(x, invert=True)[0]", O["S"][0], Sg)]
        cl += invariant_claims(ops, O["f"], "condition_on_x(x)")
        cl += invariant_claims(ops, {"Lambda": O["L"], "Sigma": O["S"], "ln_det_Sigma": O["ld"]}, "get_conditional_cov(x, invert=True)")
        cl += density_is_normalised_claims(ops, O["f"], "condition_on_x(x)")
        return cl

    return Case(cid, prop, cfg, declare, fn, claims, timeout=timeout)


def trunc_moments(ops, phi, m, s, lo=None, hi=None):
    """(F0, F1, F2) = int_{lo}^{hi} x^k N(x; m, s^2) dx, k = 0,1,2, from the textbook formulas (independent of the
    library's recursion); lo / hi None = infinite"""
    Pa = phi.Phi((lo - m) / s) if lo is not None else ops.zero()
    Pb = phi.Phi((hi - m) / s) if hi is not None else ops.one()
    pa = phi.phi((lo - m) / s) if lo is not None else ops.zero()
    pb = phi.phi((hi - m) / s) if hi is not None else ops.zero()
    F0 = Pb - Pa
    F1 = m * F0 + s * (pa - pb)
    F2 = (m * m + s * s) * F0
    if lo is not None:
        F2 = F2 + s * (m + lo) * pa
    if hi is not None:
        F2 = F2 - s * (m + hi) * pb
    return F0, F1, F2


class _FloatPhi:
    def Phi(self, t):
        import math
        return 0.5 * (1.0 + math.erf(t / math.sqrt(2.0)))

    def phi(self, t):
        import math
        return math.exp(-t * t / 2.0) / math.sqrt(2.0 * math.pi)


def step_equality_case(Dy, wsign, timeout=900, N=1):
    """C17, step link: integrate_log_conditional_y(p_x, y) EQUALS E_p(x)[ln N(y; Mx+b, Sigma(x))] (Dx=1, one noise unit,
    square A).  Oracle: the two half-lines h<0 / h>=0 with their own constant covariance, quadratic log-densities
    integrated against truncated Gaussian moments written from the textbook formulas with Phi atoms."""
    cid = f"C17/step-equality/Dx1Dy{Dy}Da{Dy}Dk1/w{'pos' if wsign > 0 else 'neg'}" + (f"/N{N}" if N > 1 else "")
    cfg = dict(clause="step link: returned value equals the true expected log-density", Dx=1, Dy=Dy, Da=Dy, Dk=1, weight_sign=wsign,
               N=N, calling_convention="N observations paired with N prior components")

    def declare(b):
        b.free("M", (1, Dy, 1)); b.free("bv", (1, Dy)); b.free("A", (1, Dy, Dy))
        b.pos("wabs", (1, 1)); b.free("w0", (1,))
        b.derived("W", (1, 2), lambda I, ops: np.array([[I["w0"][0], I["wabs"][0, 0] * ops.c(wsign)]], dtype=object))
        b.spd("Sx", N, 1); b.free("mx", (N, 1)); b.free("y", (N, Dy))
        b.phi_slots(3 * N)

    def fn(**A):
        from ..phi import patched_norm
        factor, measure, pdf, conditional = gt()
        with patched_norm():
            c = make_het("step", {"M": A["M"], "bv": A["bv"], "A": A["A"], "W": A["W"]})
            px = pdf.GaussianPDF(Sigma=A["Sx"], mu=A["mx"])
            return {"val": c.integrate_log_conditional_y(px, y=A["y"])}

    def claims(I, O, ops):
        M, bb, A_ = I["M"][0], I["bv"][0], I["A"][0]
        w0 = I["W"][0, 0]; w = I["W"][0, 1]
        phi = ops.ctx.phi if ops.symbolic else _FloatPhi()
        c = -w0 / w
        S0 = spec.mm(A_, A_.T)
        S1 = S0.copy()
        for i in range(Dy):
            for j in range(Dy):
                S1[i, j] = S1[i, j] + A_[i, 0] * A_[j, 0]
        want = ops.zeros((N,))
        for n in range(N):
            y = I["y"][n]
            m = I["mx"][n, 0]
            s = ops.sqrt(I["Sx"][n, 0, 0])

            def quad_coeffs(Sg):
                """ln N(y; M x + b, Sg) = q0 + q1 x + q2 x^2"""
                Li, d = spec.inv(ops, Sg)
                r0 = y - bb            # residual at x = 0
                r1 = -M[:, 0]          # d residual / dx
                q0 = ops.c(Fraction(-1, 2)) * spec.quad(r0, Li, r0) - ops.c(Fraction(1, 2)) * ops.lnabs(d) - ops.c(Fraction(Dy, 2)) * ops.ln2pi()
                q1 = -spec.quad(r0, Li, r1)
                q2 = ops.c(Fraction(-1, 2)) * spec.quad(r1, Li, r1)
                return q0, q1, q2
            if wsign > 0:
                reg0 = trunc_moments(ops, phi, m, s, None, c); reg1 = trunc_moments(ops, phi, m, s, c, None)
            else:
                reg0 = trunc_moments(ops, phi, m, s, c, None); reg1 = trunc_moments(ops, phi, m, s, None, c)
            tot = ops.zero()
            for (F0, F1, F2), Sg in ((reg0, S0), (reg1, S1)):
                q0, q1, q2 = quad_coeffs(Sg)
                tot = tot + q0 * F0 + q1 * F1 + q2 * F2
            want[n] = tot
        return [("step link: integrate_log_conditional_y(p_x, y)[n] = E_{p_n(x)}[ln p(y_n|x)]", O["val"], want)]

    return Case(cid, PROP, cfg, declare, fn, claims, timeout=timeout)


WITNESS_NOTE = "the returned value is not the expectation of the witness minorant (z3 sat), but no input was found where it exceeds the true expectation (quadrature) by more than 1e-6: neither confirmed nor refuted"


def _half_line_moments(ops, phi, m, s, kmax):
    """I_k = int_0^inf h^k N(h; m, s^2) dh, k = 0..kmax, by integration by parts (textbook recursion):
    I_0 = Phi(m/s), I_1 = m I_0 + s phi(m/s), I_k = m I_{k-1} + (k-1) s^2 I_{k-2} (the boundary term vanishes at 0 for k >= 2)"""
    t = m / s
    I = [phi.Phi(t)]
    if kmax >= 1:
        I.append(m * I[0] + s * phi.phi(t))
    for k in range(2, kmax + 1):
        I.append(m * I[k - 1] + ops.c(k - 1) * s * s * I[k - 2])
    return I


def relu_minorant_case(Dy, wsign, timeout=900, N=1):
    """C17, 'lb <= true expectation' for the rectified-linear link (Dx = 1, one noise unit, square A), by a WITNESS:
    with the two variational parameters replaced by ARBITRARY positive numbers (stub of _get_omega_dagger / _get_omega_star on
    the instance) the returned value must EQUAL E_p(x)[g(x)] for the function
        g(x) = -1/2 |z|^2 + 1/2 z_1^2 h exp(-ln(1+o*) - (h-o*)/(1+o*)) [h>0] - 1/2 ln det AA'
               - 1/2 (ln(1+o+) + (h-o+)/(1+o+)) [h>0] - Dy/2 ln 2pi,      z = A^-1 (y - Mx - b),  h = w x + w0,
    which is a pointwise minorant of ln N(y; Mx+b, Sigma(x)) by two instances of ln t <= t - 1 (t = (1+h)/(1+o)).  Hence
    lb <= E[ln p(y|x)] for every value of the variational parameters, in particular the library's.  If the equality fails the
    replay does NOT compare with the witness but with the property's own oracle: adaptive quadrature of the true expectation;
    only lb > truth + 1e-6 is a violation (a different valid bound would end as inconclusive, not as an alarm).
    N > 1: the paired calling convention (N observations with N prior components, own variational parameters per pair)."""
    cid = f"C17/relu-bound-valid/Dx1Dy{Dy}Da{Dy}Dk1/w{'pos' if wsign > 0 else 'neg'}" + (f"/N{N}" if N > 1 else "")
    cfg = dict(clause="rectified-linear link: returned value never exceeds the true expected log-density (witness minorant, arbitrary variational parameters)",
               Dx=1, Dy=Dy, Da=Dy, Dk=1, weight_sign=wsign, N=N)

    def declare(b):
        b.free("M", (1, Dy, 1)); b.free("bv", (1, Dy)); b.free("A", (1, Dy, Dy))
        b.pos("wabs", (1, 1)); b.free("w0", (1,))
        b.derived("W", (1, 2), lambda I, ops: np.array([[I["w0"][0], I["wabs"][0, 0] * ops.c(wsign)]], dtype=object))
        b.spd("Sx", N, 1); b.free("mx", (N, 1)); b.free("y", (N, Dy))
        b.pos("omd", (N,)); b.pos("oms", (N,))
        b.phi_slots(4 * N)

    def fn(**A):
        from ..phi import patched_norm
        factor, measure, pdf, conditional = gt()
        with patched_norm():
            c = make_het("relu", {"M": A["M"], "bv": A["bv"], "A": A["A"], "W": A["W"]})
            c._get_omega_dagger = lambda p_x, W_i: A["omd"]
            c._get_omega_star = lambda p_x, y, W_i, a_i: A["oms"]
            px = pdf.GaussianPDF(Sigma=A["Sx"], mu=A["mx"])
            return {"val": c.integrate_log_conditional_y(px, y=A["y"])}

    def claims(I, O, ops):
        if not ops.symbolic:
            val = np.asarray(O["val"], dtype=float).reshape(-1)
            return [("GE0", "true expectation (adaptive quadrature) - returned value", np.array([_relu_truth_quad(I, Dy, n) - val[n] for n in range(N)]), None)]
        M, bb, A_ = I["M"][0], I["bv"][0], I["A"][0]
        w0 = I["W"][0, 0]; w = I["W"][0, 1]
        phi = ops.ctx.phi
        Ai, dA = spec.inv(ops, A_)
        want = ops.zeros((N,))
        for n in range(N):
            y = I["y"][n]
            m = I["mx"][n, 0]
            sx = ops.sqrt(I["Sx"][n, 0, 0])
            mh = w * m + w0
            sh = I["wabs"][0, 0] * sx
            od, os_ = I["omd"][n], I["oms"][n]
            # z(h) = alpha + beta h   with x = (h - w0)/w
            q = w0 / w
            r0 = np.array([y[i] - bb[i] + M[i, 0] * q for i in range(Dy)], dtype=object)
            alpha = spec.mv(Ai, r0)
            beta = spec.mv(Ai, np.array([-(M[i, 0] / w) for i in range(Dy)], dtype=object))
            Eh, Eh2 = mh, mh * mh + sh * sh
            hom = ops.zero()
            for i in range(Dy):
                hom = hom + alpha[i] * alpha[i] + ops.c(2) * alpha[i] * beta[i] * Eh + beta[i] * beta[i] * Eh2
            # tilted half-line moments: int_{h>0} h^k exp(-kappa h) N(h; mh, sh^2) dh = exp(-kappa mh + kappa^2 sh^2/2) I_k(mh - kappa sh^2, sh)
            kappa = ops.one() / (ops.one() + os_)
            C = ops.exp(-kappa * mh + kappa * kappa * sh * sh * ops.c(Fraction(1, 2)))
            J = _half_line_moments(ops, phi, mh - kappa * sh * sh, sh, 3)
            pref = ops.exp(os_ * kappa) * kappa        # exp(-ln(1+o*) + o*/(1+o*))
            het = pref * C * (alpha[0] * alpha[0] * J[1] + ops.c(2) * alpha[0] * beta[0] * J[2] + beta[0] * beta[0] * J[3])
            I0, I1 = _half_line_moments(ops, phi, mh, sh, 1)
            ld = ops.lnabs(dA * dA) + I0 * ops.log(ops.one() + od) + (I1 - I0 * od) / (ops.one() + od)
            want[n] = ops.c(Fraction(-1, 2)) * (hom - het) - ops.c(Fraction(1, 2)) * ld - ops.c(Fraction(Dy, 2)) * ops.ln2pi()
        return [("relu link: integrate_log_conditional_y[n] = E_{p_n}[g], g a pointwise minorant of ln p(y_n|x) (arbitrary variational parameters)", O["val"], want)]

    def env(ctx, rng):
        from ..case import random_env
        e = random_env(ctx, rng)
        e["wabs_0_0"] = rng.choice([0.05, 0.1, 0.25, 0.5, 1.0, 1.5])      # small input weights make a wrong substitution visible
        return e

    return Case(cid, PROP, cfg, declare, fn, claims, timeout=timeout, env=env, sat_note=WITNESS_NOTE)


def _relu_truth_quad(I, Dy, n=0):
    """E_{N(x; m, s^2)}[ln N(y; M x + b, AA' + a_1 a_1' relu(w x + w0))] by piecewise adaptive quadrature (float replay only)"""
    import math
    from scipy import integrate
    M, bb, A_ = np.asarray(I["M"][0], float), np.asarray(I["bv"][0], float), np.asarray(I["A"][0], float)
    y = np.asarray(I["y"][n], float)
    w0, w = float(I["W"][0, 0]), float(I["W"][0, 1])
    m, s = float(I["mx"][n, 0]), math.sqrt(float(I["Sx"][n, 0, 0]))
    AAt = A_ @ A_.T
    a1 = A_[:, 0]

    def f(x):
        d = max(w * x + w0, 0.0)
        Sg = AAt + d * np.outer(a1, a1)
        r = y - M[:, 0] * x - bb
        sign, ld = np.linalg.slogdet(Sg)
        lp = -0.5 * r @ np.linalg.solve(Sg, r) - 0.5 * ld - 0.5 * Dy * math.log(2 * math.pi)
        return lp * math.exp(-0.5 * ((x - m) / s) ** 2) / (s * math.sqrt(2 * math.pi))
    kink = -w0 / w
    lo, hi = m - 12 * s, m + 12 * s
    pts = sorted(p for p in (kink, m) if lo < p < hi)
    return integrate.quad(f, lo, hi, points=pts or None, epsabs=1e-12, epsrel=1e-11, limit=400)[0]


def jj_minorant_case(link, Dx, Dy, timeout=1200, Dk=1):
    """C17, 'lb <= true expectation' for the exp and cosh-1 links at ARBITRARY weights, by a witness (as relu_minorant_case):
    with both variational parameters replaced by arbitrary positive numbers the returned value must equal E_p(x)[g(x)] for
        exp:    g = -1/2|z|^2 + 1/2 z_1^2 exp(h/2 - f(o*) - f'(o*)/(2o*) (h^2-o*^2)) - 1/2 ln det AA'
                    - 1/2 (h/2 + f(o+) + f'(o+)/(2o+) (h^2-o+^2)) - Dy/2 ln 2pi,           f(t) = ln(2 cosh(t/2))
        cosh-1: g = -1/2|z|^2 + 1/2 z_1^2 (cosh h - 1) exp(-F(o*) - F'(o*)/(2o*) (h^2-o*^2)) - 1/2 ln det AA'
                    - 1/2 (F(o+) + F'(o+)/(2o+) (h^2-o+^2)) - Dy/2 ln 2pi,                 F(t) = ln cosh t
    a pointwise minorant of ln N(y; Mx+b, AA' + a_1 a_1' link(h)) by the Jaakkola-Jordan lemma  phi(h) <= phi(o) + phi'(o)/(2o) (h^2-o^2)
    for phi in {f, F} (phi(sqrt(u)) is concave in u) -- an AXIOM of this check, like the Gaussian mass formula; z3 cannot derive it.
    Expectations of z_1^2 exp(quadratic) are tilted-Gaussian closed forms.  On a failed equality the replay compares the returned
    value with quadrature of the TRUE expectation (adaptive for Dx=1, Gauss-Hermite for Dx=2): only lb > truth + 1e-6 is a violation."""
    cid = f"C17/{link}-bound-valid/Dx{Dx}Dy{Dy}Da{Dy}Dk{Dk}"
    cfg = dict(clause=f"{link} link: returned value never exceeds the true expected log-density (witness minorant, arbitrary variational parameters, arbitrary weights)",
               Dx=Dx, Dy=Dy, Da=Dy, Dk=Dk)

    def declare(b):
        b.free("M", (1, Dy, Dx)); b.free("bv", (1, Dy)); b.free("A", (1, Dy, Dy)); b.free("W", (Dk, Dx + 1))
        b.spd("Sx", 1, Dx); b.free("mx", (1, Dx)); b.free("y", (1, Dy))
        b.pos("omd", (1,)); b.pos("oms", (1,))
        b.exp_alias("omd_0", "Td", Fraction(1, 2)); b.exp_alias("oms_0", "Ts", Fraction(1, 2))

    def fn(**A):
        factor, measure, pdf, conditional = gt()
        c = make_het(link, {"M": A["M"], "bv": A["bv"], "A": A["A"], "W": A["W"]})
        c._get_omega_dagger = lambda p_x, W_i: A["omd"]
        c._get_omega_star = lambda p_x, y, W_i, a_i: A["oms"]
        px = pdf.GaussianPDF(Sigma=A["Sx"], mu=A["mx"])
        return {"val": c.integrate_log_conditional_y(px, y=A["y"])}

    def claims(I, O, ops):
        if not ops.symbolic:
            return [("GE0", "true expectation (quadrature) - returned value", np.array([_smooth_truth_quad(I, link, Dx, Dy, Dk) - float(np.asarray(O["val"]).reshape(-1)[0])]), None)]
        from .c14 import tilted
        M, bb, A_ = I["M"][0], I["bv"][0], I["A"][0]
        y = I["y"][0]
        m, S = I["mx"][0], I["Sx"][0]
        od, os_ = I["omd"][0], I["oms"][0]
        half = ops.c(Fraction(1, 2))
        mom = spec.Moments(ops, m, S)
        Ai, dA = spec.inv(ops, A_)
        res = _residual_polys(I, ops, Dx, Dy)                    # r_i(x) = y_i - b_i - (Mx)_i
        zp = []
        for i in range(Dy):
            p_ = spec.p_const(Dx, ops.zero())
            for j in range(Dy):
                p_ = spec.p_add(p_, spec.p_scale(res[j], Ai[i, j]))
            zp.append(p_)
        hom = ops.zero()
        for i in range(Dy):
            hom = hom + mom.expect(spec.p_mul(zp[i], zp[i]))

        def cosh_(t): return half * (ops.exp(t) + ops.exp(-t))
        def tanh_(t): return (ops.exp(t) - ops.exp(-t)) / (ops.exp(t) + ops.exp(-t))
        if link == "exp":
            f = lambda t: ops.log(ops.c(2) * cosh_(t * half))
            lam = lambda t: tanh_(t * half) / (ops.c(4) * t)         # f'(t)/(2t)
        else:
            f = lambda t: ops.log(cosh_(t))
            lam = lambda t: tanh_(t) / (ops.c(2) * t)
        ls, ld_ = lam(os_), lam(od)

        def kernel_expect(lin_coef, const, k=0):
            """E_p[z_k^2 exp(-ls h_k^2 + lin_coef h_k + const)]"""
            b0 = I["W"][k, 0]; w = [I["W"][k, 1 + j] for j in range(Dx)]
            Ak = ops.zeros((Dx, Dx)); ak = ops.zeros((Dx,))
            for i in range(Dx):
                ak[i] = (lin_coef - ops.c(2) * ls * b0) * w[i]
                for j in range(Dx):
                    Ak[i, j] = ops.c(2) * ls * w[i] * w[j]
            c_ = -ls * b0 * b0 + lin_coef * b0 + const
            mass, tm = tilted(ops, m, S, Ak, ak, c_)
            return mass * tm.expect(spec.p_mul(zp[k], zp[k]))
        base = ls * os_ * os_ - f(os_)
        het = ops.zero(); ldet = ops.lnabs(dA * dA)
        for k in range(Dk):            # the same (arbitrary) pair of variational parameters for every noise unit
            hp = spec.p_affine(ops, [I["W"][k, 1 + j] for j in range(Dx)], I["W"][k, 0])
            Eh = mom.expect(hp); Eh2 = mom.expect(spec.p_mul(hp, hp))
            if link == "exp":
                het = het + kernel_expect(half, base, k)
                ldet = ldet + half * Eh + f(od) + ld_ * (Eh2 - od * od)
            else:
                ln2 = ops.log(ops.c(2))
                het = het + kernel_expect(ops.one(), base - ln2, k) + kernel_expect(-ops.one(), base - ln2, k) - kernel_expect(ops.zero(), base, k)
                ldet = ldet + f(od) + ld_ * (Eh2 - od * od)
        want = -half * (hom - het) - half * ldet - ops.c(Fraction(Dy, 2)) * ops.ln2pi()
        return [(f"{link} link: integrate_log_conditional_y = E_p[g], g a pointwise minorant of ln p(y|x) (Jaakkola-Jordan lemma; arbitrary variational parameters)", O["val"], np.array([want], dtype=object))]

    return Case(cid, PROP, cfg, declare, fn, claims, timeout=timeout, sat_note=WITNESS_NOTE)


def _smooth_truth_quad(I, link, Dx, Dy, Dk=1):
    """E_{N(x; m, S)}[ln N(y; M x + b, AA' + a_1 a_1' link(w'x + w0))] by adaptive quadrature (Dx=1) / Gauss-Hermite (Dx=2)"""
    import math
    M, bb, A_ = np.asarray(I["M"][0], float), np.asarray(I["bv"][0], float), np.asarray(I["A"][0], float)
    y = np.asarray(I["y"][0], float)
    W = np.asarray(I["W"], float)
    m, S = np.asarray(I["mx"][0], float), np.asarray(I["Sx"][0], float)
    AAt = A_ @ A_.T

    def lp(x):
        Sg = AAt.copy()
        for k in range(Dk):
            h = float(W[k, 1:] @ x + W[k, 0])
            d = math.exp(h) if link == "exp" else math.cosh(h) - 1.0
            Sg = Sg + d * np.outer(A_[:, k], A_[:, k])
        r = y - M @ x - bb
        sign, ld = np.linalg.slogdet(Sg)
        return -0.5 * r @ np.linalg.solve(Sg, r) - 0.5 * ld - 0.5 * Dy * math.log(2 * math.pi)
    if Dx == 1:
        from scipy import integrate
        s = math.sqrt(S[0, 0])
        f = lambda x: lp(np.array([x])) * math.exp(-0.5 * ((x - m[0]) / s) ** 2) / (s * math.sqrt(2 * math.pi))
        return integrate.quad(f, m[0] - 12 * s, m[0] + 12 * s, points=[m[0]], epsabs=1e-12, epsrel=1e-11, limit=400)[0]
    L = np.linalg.cholesky(S)
    xs, ws = np.polynomial.hermite_e.hermegauss(80)
    ws = ws / math.sqrt(2 * math.pi)
    tot = 0.0
    for i, (u, wu) in enumerate(zip(xs, ws)):
        for v, wv in zip(xs, ws):
            tot += wu * wv * lp(m + L @ np.array([u, v]))
    return tot


def _link_value(ops, link, h):
    if link == "exp":
        return ops.exp(h)
    if link == "cosh":
        return ops.c(Fraction(1, 2)) * (ops.exp(h) + ops.exp(-h)) - ops.one()
    raise ValueError(link)


def _link_deriv(ops, link, h):
    if link == "exp":
        return ops.exp(h)
    if link == "cosh":
        return ops.c(Fraction(1, 2)) * (ops.exp(h) - ops.exp(-h))
    raise ValueError(link)


def _declare_zero_weight(b, Dx, Dy, Dk, signs, with_dir, N=1):
    b.free("M", (1, Dy, Dx)); b.free("bv", (1, Dy)); b.free("A", (1, Dy, Dy))
    b.spd("Sx", N, Dx); b.free("mx", (N, Dx)); b.free("y", (N, Dy))
    b.pos("c", (Dk,))
    for k in range(Dk):
        # T_k = exp(c_k / 2): cosh / tanh / exp of the offset and of omega = |offset| become rational in T_k
        b.exp_alias(f"c_{k}", f"T_{k}", Fraction(1, 2))
    b.derived("w0", (Dk,), lambda I, ops: np.array([I["c"][k] * ops.c(signs[k]) for k in range(Dk)], dtype=object))
    if with_dir:
        b.free("wdir", (Dk, Dx))


def zero_weight_case(link, Dx, Dy, Dk, signs, timeout=900, N=1):
    """C17, 'exactly zero gap at zero weights' (exp, cosh-1): with the input weights of all noise units equal to 0
    the value of integrate_log_conditional_y IS the expected log-density of the (then homoscedastic) model."""
    sg = "".join("p" if s > 0 else "m" for s in signs)
    cid = f"C17/zero-weight-exact/{link}/Dx{Dx}Dy{Dy}Da{Dy}Dk{Dk}/w0{sg}" + (f"/N{N}" if N > 1 else "")
    cfg = dict(clause="bound is exact at zero input weights", link=link, Dx=Dx, Dy=Dy, Da=Dy, Dk=Dk, offset_signs=list(signs), N=N)

    def declare(b):
        _declare_zero_weight(b, Dx, Dy, Dk, signs, False, N)

    def fn(**A):
        import jax.numpy as jnp
        factor, measure, pdf, conditional = gt()
        W = jnp.concatenate([A["w0"][:, None], jnp.zeros((Dk, Dx))], axis=1)
        c = make_het(link, {"M": A["M"], "bv": A["bv"], "A": A["A"], "W": W})
        px = pdf.GaussianPDF(Sigma=A["Sx"], mu=A["mx"])
        return {"val": c.integrate_log_conditional_y(px, y=A["y"])}

    def claims(I, O, ops):
        want = ops.zeros((N,))
        for n in range(N):
            want[n] = _homoscedastic_expectation(I, ops, link, Dx, Dy, Dk, n)
        return [("zero weights: integrate_log_conditional_y(p_x, y)[n] = E_{p_n(x)}[ln N(y_n; Mx+b, AA' + A_k diag(link(w0)) A_k')]", O["val"], want)]

    return Case(cid, PROP, cfg, declare, fn, claims, timeout=timeout)


def tightness_case(link, Dx, Dy, Dk, signs, timeout=1200, mode="jvp", prop=None):
    """C17, 'the gap vanishes quadratically as the input weights shrink' (exp, cosh-1), restated as the first-order
    condition at zero weights: with W = [w0, eps * wdir], d/d eps of the returned value at eps = 0 equals d/d eps of the
    true expected log-density at eps = 0 (which, unlike the expectation itself, has a closed form:
    E_p[ d/dh ln N(y; Mx+b, Sigma(h)) |_{h=w0} * wdir'x ]).  Together with exactness at eps = 0 the gap is o(eps).
    The derivative of the real code is taken by jax.jvp with lax.stop_gradient made transparent (the total derivative
    of the returned VALUE is wanted, including the dependence through the variational parameters)."""
    sg = "".join("p" if s > 0 else "m" for s in signs)
    cid = f"C17/first-order-tight/{link}/Dx{Dx}Dy{Dy}Da{Dy}Dk{Dk}/w0{sg}"
    cfg = dict(clause="gap has zero slope at zero input weights (quadratic tightness, first-order condition)", link=link, Dx=Dx, Dy=Dy, Da=Dy, Dk=Dk, offset_signs=list(signs))
    if mode == "grad":
        # C18: the reverse-mode gradient the user gets (jax.grad, the library's stop_gradient untouched) w.r.t. the scale of the
        # noise-unit input weights at 0 equals the exact derivative of the returned value there
        cid = f"{prop}/grad/het-bound-{link}/Dx{Dx}Dy{Dy}Dk{Dk}/w0{sg}"
        cfg = dict(pipeline="jax.grad of Heteroscedastic*Conditional.integrate_log_conditional_y w.r.t. the weight scale at 0", link=link, Dx=Dx, Dy=Dy, Dk=Dk, offset_signs=list(signs))

    def declare(b):
        _declare_zero_weight(b, Dx, Dy, Dk, signs, True)

    def fn(**A):
        import jax
        import jax.numpy as jnp
        from jax import lax
        factor, measure, pdf, conditional = gt()
        px = pdf.GaussianPDF(Sigma=A["Sx"], mu=A["mx"])

        def f(eps):
            W = jnp.concatenate([A["w0"][:, None], eps * A["wdir"]], axis=1)
            c = make_het(link, {"M": A["M"], "bv": A["bv"], "A": A["A"], "W": W})
            return c.integrate_log_conditional_y(px, y=A["y"])
        if mode == "grad":
            val, dval = jax.value_and_grad(lambda e: f(e)[0])(jnp.zeros(()))
            return {"val": val[None], "dval": dval[None]}
        orig = lax.stop_gradient
        lax.stop_gradient = lambda x: x
        try:
            val, dval = jax.jvp(f, (jnp.zeros(()),), (jnp.ones(()),))
        finally:
            lax.stop_gradient = orig
        return {"val": val, "dval": dval}

    def claims(I, O, ops):
        Sg = _const_cov(I, ops, link, Dy, Dk)
        Li, d = spec.inv(ops, Sg)
        mom = spec.Moments(ops, I["mx"][0], I["Sx"][0])
        res = _residual_polys(I, ops, Dx, Dy)
        A_ = I["A"][0]
        tot = ops.zero()
        for k in range(Dk):
            g = spec.mv(Li, A_[:, k])                       # Sigma^-1 a_k
            u = spec.p_const(Dx, ops.zero())
            for i in range(Dy):
                u = spec.p_add(u, spec.p_scale(res[i], g[i]))
            aSa = sum((A_[i, k] * g[i] for i in range(Dy)), ops.zero())
            inner = spec.p_add(spec.p_mul(u, u), spec.p_const(Dx, -aSa))
            hdir = spec.p_affine(ops, [I["wdir"][k, j] for j in range(Dx)], ops.zero())
            tot = tot + ops.c(Fraction(1, 2)) * _link_deriv(ops, link, I["w0"][k]) * mom.expect(spec.p_mul(inner, hdir))
        return [("zero weights: value", O["val"], _homoscedastic_expectation(I, ops, link, Dx, Dy, Dk)),
                ("d/d eps of integrate_log_conditional_y at eps=0 = d/d eps of E_p[ln p(y|x)] at eps=0", O["dval"], tot)]

    return Case(cid, prop or PROP, cfg, declare, fn, claims, timeout=timeout)


def _const_cov(I, ops, link, Dy, Dk):
    A_ = I["A"][0]
    Sg = spec.mm(A_, A_.T)
    for k in range(Dk):
        d = _link_value(ops, link, I["w0"][k])
        for i in range(Dy):
            for j in range(Dy):
                Sg[i, j] = Sg[i, j] + A_[i, k] * d * A_[j, k]
    return Sg


def _residual_polys(I, ops, Dx, Dy, n=0):
    M, bb, y = I["M"][0], I["bv"][0], I["y"][n]
    return [spec.p_affine(ops, [-M[i, j] for j in range(Dx)], y[i] - bb[i]) for i in range(Dy)]


def _homoscedastic_expectation(I, ops, link, Dx, Dy, Dk, n=0):
    Sg = _const_cov(I, ops, link, Dy, Dk)
    Li, d = spec.inv(ops, Sg)
    mom = spec.Moments(ops, I["mx"][n], I["Sx"][n])
    res = _residual_polys(I, ops, Dx, Dy, n)
    q = ops.zero()
    for i in range(Dy):
        for j in range(Dy):
            q = q + Li[i, j] * mom.expect(spec.p_mul(res[i], res[j]))
    return ops.c(Fraction(-1, 2)) * q - ops.c(Fraction(1, 2)) * ops.lnabs(d) - ops.c(Fraction(Dy, 2)) * ops.ln2pi()


def cases(tier, seed=0):
    out = []
    for Dy in (1, 2):
        for wsign in (1, -1):
            out.append(step_equality_case(Dy, wsign))
    out.append(step_equality_case(1, 1, N=2)); out.append(step_equality_case(2, -1, N=2))
    for Dy in (1, 2):
        for wsign in (1, -1):
            out.append(relu_minorant_case(Dy, wsign))
    out.append(relu_minorant_case(1, 1, N=2)); out.append(relu_minorant_case(2, -1, N=2))
    for link in ("exp", "cosh"):
        for (Dx, Dy) in ((1, 1), (1, 2), (2, 1)):
            out.append(jj_minorant_case(link, Dx, Dy))
        out.append(jj_minorant_case(link, 1, 2, Dk=2))
    for link in ("exp", "cosh"):
        for (Dx, Dy, Dk) in ((1, 1, 1), (2, 2, 1), (1, 2, 2)):
            for signs in itertools.product((1, -1), repeat=Dk):
                out.append(zero_weight_case(link, Dx, Dy, Dk, list(signs)))
                out.append(tightness_case(link, Dx, Dy, Dk, list(signs)))
        out.append(zero_weight_case(link, 1, 1, 1, [1], N=2)); out.append(zero_weight_case(link, 1, 2, 2, [1, -1], N=2))
    shapes = [(1, 1, 1, 1), (2, 2, 2, 1), (2, 2, 2, 2), (1, 1, 2, 1), (1, 1, 2, 2), (2, 2, 3, 2)]   # (Dx, Dy, Da, Dk)
    for link in ("exp", "cosh"):
        for (Dx, Dy, Da, Dk) in shapes:
            out.append(coherence_case(link, Dx, Dy, Da, Dk, semi=("A",) if Da == 3 else ()))
        if tier == "thorough":
            out.append(coherence_case(link, 2, 3, 3, 2, semi=("A",), timeout=1800))
            out.append(coherence_case(link, 3, 2, 2, 2, timeout=1800))
    for link in ("exp", "cosh", "step", "relu"):
        out.append(coherence_case(link, 1, 2, 2, 1, signs=[1] if link in ("step", "relu") else None, explicit_Sigma=True))
    for link in ("step", "relu"):
        for (Dx, Dy, Da, Dk) in shapes:
            for signs in itertools.product((1, -1), repeat=Dk):
                out.append(coherence_case(link, Dx, Dy, Da, Dk, signs=list(signs), semi=("A",) if Da == 3 else ()))
        if tier == "thorough":
            out.append(coherence_case(link, 2, 3, 3, 2, signs=[1, -1], semi=("A",), timeout=1800))
    return out
