"""C05: get_marginal(dims) is N(mu[dims], Sigma[dims,dims]) = integral of the joint over the rest;
get_density_of_linear_sum(W,b) is the law of Wx+b."""
from fractions import Fraction
import itertools
import numpy as np

from ..case import Case
from .. import spec
from .common import gt, fields, invariant_claims, density_is_normalised_claims

PROP = "C05"

BOUNDS = {
    "quick": "get_marginal: D<=3, every non-empty ordered index list without repetition for D<=2 and all lists of D=3 up to order-representatives, R<=2, full and diagonal densities, fully symbolic; linear sum: Dsum=1 fully symbolic D<=3, Dsum=2 semi-symbolic (W or Sigma concrete)",
    "thorough": "all ordered lists of D=3, D=4 semi-symbolic (Sigma concrete), R=3, Dsum=D=2 with only one block concrete, Dsum=3=D semi",
}
ASSUMPTIONS = ["full row rank of W is the precondition det(W W') != 0 (a side condition of the inverse in the oracle)"]


def _sublists(D, ordered=True):
    out = []
    for k in range(1, D + 1):
        for comb in itertools.permutations(range(D), k) if ordered else itertools.combinations(range(D), k):
            out.append(list(comb))
    return out


def marg_case(kind, D, R, dims, semi=(), timeout=300):
    cid = f"C05/get_marginal/{kind}/D{D}R{R}/dims{''.join(map(str, dims))}" + ("/semi-" + "-".join(semi) if semi else "")
    cfg = dict(op="get_marginal", density=kind, D=D, R=R, dims=dims, concrete_blocks=list(semi))
    K = len(dims)

    def declare(b):
        if "S" in semi:
            b.const("S", b.rat_spd(R, D))
        elif kind == "pdf":
            b.spd("S", R, D)
        else:
            b.diag("S", R, D)
        b.free("mu", (R, D)); b.free("z", (2, K))

    def fn(**A):
        factor, measure, pdf, conditional = gt()
        p = (pdf.GaussianPDF if kind == "pdf" else pdf.GaussianDiagPDF)(Sigma=A["S"], mu=A["mu"])
        m = p.get_marginal(np.array(dims))
        return {"eval": m.evaluate_ln(A["z"]), "f": fields(m)}

    def claims(I, O, ops):
        S, mu, z = I["S"], I["mu"], I["z"]
        cl = []
        exp = ops.zeros((R, 2)); exp2 = ops.zeros((R, 2))
        idx = list(dims)
        rest = [i for i in range(D) if i not in idx]
        for r in range(R):
            Sm = S[r][np.ix_(idx, idx)]
            mm_ = mu[r][idx]
            # (b) integral of the joint over the remaining coordinates, in precision form, from the
            #     joint's own Lambda, nu, ln_beta (mass axiom applied to x_rest)
            Lam, d = spec.inv(ops, S[r])
            nu = spec.mv(Lam, mu[r])
            lb = ops.c(Fraction(-1, 2)) * spec.quad(mu[r], Lam, mu[r]) - ops.c(Fraction(1, 2)) * ops.lnabs(d) - ops.c(Fraction(D, 2)) * ops.ln2pi()
            if rest:
                Laa = Lam[np.ix_(idx, idx)]; Lab = Lam[np.ix_(idx, rest)]; Lbb = Lam[np.ix_(rest, rest)]
                Lbbi, dbb = spec.inv(ops, Lbb)
                G = spec.mm(Lab, Lbbi)
                Lm = Laa - spec.mm(G, Lab.T)
                num = nu[idx] - spec.mv(G, nu[rest])
                c = lb + ops.c(Fraction(1, 2)) * spec.quad(nu[rest], Lbbi, nu[rest]) + ops.c(Fraction(len(rest), 2)) * ops.ln2pi() - ops.c(Fraction(1, 2)) * ops.lnabs(dbb)
            else:
                Lm, num, c = Lam[np.ix_(idx, idx)], nu[idx], lb
            for n in range(2):
                exp[r, n] = spec.logN(ops, z[n], mm_, Sm)
                exp2[r, n] = spec.ln_factor(ops, z[n], Lm, num, c)
        cl.append(("marginal(z) = N(z; mu[dims], Sigma[dims,dims])", O["eval"], exp))
        cl.append(("marginal(z) = integral of the joint over the other coordinates", O["eval"], exp2))
        cl += invariant_claims(ops, O["f"], "marginal")
        cl += density_is_normalised_claims(ops, O["f"], "marginal")
        return cl

    return Case(cid, PROP, cfg, declare, fn, claims, timeout=timeout)


def linsum_case(D, Dsum, R, with_b, semi=(), timeout=400, kind="pdf"):
    cid = f"C05/linear_sum/D{D}Dsum{Dsum}R{R}/b{int(with_b)}" + ("/semi-" + "-".join(semi) if semi else "") + ("/diag-source" if kind == "diagpdf" else "")
    cfg = dict(op="get_density_of_linear_sum", D=D, Dsum=Dsum, R=R, with_b=with_b, concrete_blocks=list(semi), source=kind)

    def declare(b):
        if kind == "diagpdf":
            b.diag("S", R, D)
        elif "S" in semi:
            b.const("S", b.rat_spd(R, D))
        else:
            b.spd("S", R, D)
        b.free("mu", (R, D))
        if "W" in semi:
            # generic rational full-row-rank W (checked)
            while True:
                W = b.rat_array((R, Dsum, D), nonzero=True)
                ok = True
                for r in range(R):
                    G = np.array(W[r].dot(W[r].T).tolist(), dtype=float)
                    if abs(np.linalg.det(G)) < 1e-6:
                        ok = False
                if ok:
                    break
            b.const("W", W)
        else:
            b.free("W", (R, Dsum, D))
        if with_b:
            b.free("bb", (R, Dsum))
        b.free("z", (1, Dsum))

    def fn(**A):
        factor, measure, pdf, conditional = gt()
        p = (pdf.GaussianDiagPDF if kind == "diagpdf" else pdf.GaussianPDF)(Sigma=A["S"], mu=A["mu"])
        q = p.get_density_of_linear_sum(A["W"], A["bb"] if with_b else None)
        return {"eval": q.evaluate_ln(A["z"]), "f": fields(q)}

    def claims(I, O, ops):
        S, mu, W, z = I["S"], I["mu"], I["W"], I["z"]
        exp = ops.zeros((R, 1)); emu = ops.zeros((R, Dsum)); eS = ops.zeros((R, Dsum, Dsum))
        for r in range(R):
            emu[r] = spec.mv(W[r], mu[r]) + (I["bb"][r] if with_b else ops.zeros((Dsum,)))
            eS[r] = spec.mm(spec.mm(W[r], S[r]), W[r].T)
            exp[r, 0] = spec.logN(ops, z[0], emu[r], eS[r])
        cl = [("linear_sum(z) = N(z; W mu + b, W Sigma W')", O["eval"], exp),
              ("linear_sum.mu", O["f"]["mu"], emu), ("linear_sum.Sigma", O["f"]["Sigma"], eS)]
        cl += invariant_claims(ops, O["f"], "linear_sum")
        cl += density_is_normalised_claims(ops, O["f"], "linear_sum")
        return cl

    return Case(cid, PROP, cfg, declare, fn, claims, timeout=timeout)


def cases(tier, seed=0):
    out = []
    for kind in ("pdf", "diagpdf"):
        for D in (1, 2):
            for dims in _sublists(D):
                out.append(marg_case(kind, D, 2, dims))
        l3 = _sublists(3)
        if tier == "quick":
            # D=3: every subset once in sorted order plus rotated / reversed orders of the 2- and 3-lists
            l3 = [[0], [2], [0, 1], [2, 0], [1, 2], [2, 1], [0, 1, 2], [2, 0, 1], [1, 0, 2]]
        for dims in l3:
            out.append(marg_case(kind, 3, 1 if len(dims) == 3 else 2, dims, timeout=600))
        if tier == "thorough":
            for dims in ([0, 3], [3, 1, 0], [2, 3], [1, 2, 3, 0], [3], [2, 0, 3]):
                out.append(marg_case(kind, 4, 2, dims, semi=("S",) if kind == "pdf" else (), timeout=1200))
            for dims in ([1], [1, 0], [2, 0]):
                out.append(marg_case(kind, 3 if len(dims) > 1 and max(dims) > 1 else 2, 3, dims, timeout=900))
    # linear images
    for D in (1, 2, 3):
        for wb in (True, False):
            out.append(linsum_case(D, 1, 2, wb))
    for wb in (True, False):
        out.append(linsum_case(2, 2, 1, wb, semi=("W",)))
        out.append(linsum_case(2, 2, 2, wb, semi=("S",)))
        out.append(linsum_case(3, 2, 1, wb, semi=("W",)))
        # a diagonal density as the source: the image is NOT diagonal in general
        out.append(linsum_case(2, 2, 2, wb, kind="diagpdf"))
        out.append(linsum_case(3, 2, 1, wb, kind="diagpdf", semi=("W",)))
        out.append(linsum_case(2, 1, 2, wb, kind="diagpdf"))
    if tier == "thorough":
        out.append(linsum_case(3, 2, 2, True, semi=("S",), timeout=1800))
        out.append(linsum_case(3, 3, 1, True, semi=("W",), timeout=1800))
        out.append(linsum_case(3, 3, 1, False, semi=("S",), timeout=1800))
        out.append(linsum_case(2, 2, 1, True, timeout=1800))
        out.append(linsum_case(4, 2, 1, True, semi=("W", "S"), timeout=1800))
        out.append(linsum_case(2, 1, 3, True, timeout=900))
    return out
