"""Standard-normal cdf / pdf as symbolic atoms (C20 and the links that need truncated moments).

In the harness process `jax.scipy.stats.norm.{cdf,pdf,logcdf}` are wrapped in named jitted
functions, so that they show up as `jit[name=_gt_Phi|_gt_phi|_gt_logPhi]` equations in the jaxpr
(in float runs the wrappers simply call the originals).  The interpreter hooks map

    Phi(t)  ->  a fresh field generator PHI_k per canonical argument t   (0 < PHI_k < 1,
                monotone in t, Phi(-t) = 1 - Phi(t), Phi(0) = 1/2, Phi(-inf) = 0, Phi(+inf) = 1)
    phi(t)  ->  exp(-t^2/2) / sqrt(2 PI)            (exact in the exp/sqrt domain)

and `total_diff` differentiates expressions containing PHI_k with d PHI_k = phi(t_k) dt_k."""
import contextlib
import math
from fractions import Fraction

import numpy as np

from .symdom import S, Ext, Unsupported, sdiff


@contextlib.contextmanager
def patched_norm():
    import jax
    from jax.scipy.stats import norm
    o_cdf, o_pdf, o_logcdf = norm.cdf, norm.pdf, norm.logcdf

    def _gt_phi(x):
        return o_pdf(x)

    # d Phi(x) = phi(x) dx is given as a custom JVP through the NAMED pdf wrapper, so that under jax.grad / jvp the jaxpr still
    # contains jit[_gt_Phi] (1 in, 1 out) and jit[_gt_phi] equations that the interpreter hooks recognise
    @jax.custom_jvp
    def _Phi(x):
        return o_cdf(x)

    @_Phi.defjvp
    def _Phi_jvp(primals, tangents):
        (x,), (dx,) = primals, tangents
        return j1(x), j2(x) * dx

    def _gt_Phi(x):
        return _Phi(x)

    @jax.custom_jvp
    def _logPhi(x):
        return o_logcdf(x)

    @_logPhi.defjvp
    def _logPhi_jvp(primals, tangents):
        (x,), (dx,) = primals, tangents
        return j3(x), j2(x) / j1(x) * dx

    def _gt_logPhi(x):
        return _logPhi(x)
    j1, j2, j3 = jax.jit(_gt_Phi), jax.jit(_gt_phi), jax.jit(_gt_logPhi)
    norm.cdf = lambda x, *a, **k: j1(x)
    norm.pdf = lambda x, *a, **k: j2(x)
    norm.logcdf = lambda x, *a, **k: j3(x)
    try:
        yield
    finally:
        norm.cdf, norm.pdf, norm.logcdf = o_cdf, o_pdf, o_logcdf


class PhiTable:
    def __init__(self, ctx, slot_names):
        self.ctx = ctx
        self.free = list(slot_names)
        self.slots = []          # (name, K argument)
        for n in slot_names:
            ctx.extra_smt.append(f"(and (> {n} 0.0) (< {n} 1.0))")
        ctx.env_fixups.append(self.fix_env)

    # ---- values
    def Phi(self, x):
        ctx = self.ctx
        if isinstance(x, Ext):
            if x.k == "+inf":
                return ctx.ONE
            if x.k == "-inf":
                return ctx.ZERO
            return x
        if x.is_zero():
            return ctx.const(Fraction(1, 2))
        if not x.is_rat():
            raise Unsupported("Phi of a non-rational argument")
        k = x.ratpart()
        if k.numer.is_ground and k.denom.is_ground:
            raise Unsupported("Phi of a concrete non-zero argument (transcendental value)")
        for name, arg in self.slots:
            if arg == k:
                return ctx.var(name)
            if arg == -k:
                return ctx.ONE - ctx.var(name)
        if not self.free:
            raise Unsupported("out of Phi slots")
        name = self.free.pop(0)
        from .vc import VC
        vc = VC(ctx)
        for oname, oarg in self.slots:
            d = vc.sign_expr(oarg - k)        # sign(arg_old - arg_new)
            ctx.extra_smt.append(f"(=> (< {d} 0.0) (< {oname} {name}))")
            ctx.extra_smt.append(f"(=> (> {d} 0.0) (> {oname} {name}))")
            ctx.extra_smt.append(f"(=> (= {d} 0.0) (= {oname} {name}))")
            ds = vc.sign_expr(oarg + k)       # relation to Phi(-t): Phi(s) + Phi(t) <,=,> 1  as  s + t <,=,> 0
            ctx.extra_smt.append(f"(=> (< {ds} 0.0) (< (+ {oname} {name}) 1.0))")
            ctx.extra_smt.append(f"(=> (> {ds} 0.0) (> (+ {oname} {name}) 1.0))")
        s0 = vc.sign_expr(k)
        ctx.extra_smt.append(f"(=> (< {s0} 0.0) (< {name} 0.5))")
        ctx.extra_smt.append(f"(=> (> {s0} 0.0) (> {name} 0.5))")
        self.slots.append((name, k))
        return ctx.var(name)

    def phi(self, x):
        ctx = self.ctx
        if isinstance(x, Ext):
            return ctx.ZERO if x.k != "nan" else x
        return (x * x * Fraction(-1, 2)).exp() * (ctx.rat(2 * ctx.g["PI"]) ** Fraction(-1, 2))

    def logPhi(self, x):
        v = self.Phi(x)
        if isinstance(v, Ext):
            return v
        if v.is_zero():
            return Ext(self.ctx, "-inf")
        return v.log()

    # ---- interpreter hooks
    def _map(self, f, arr, it):
        arr = it.lift_arr(arr)
        out = np.empty(arr.shape, dtype=object)
        of = out.reshape(-1)
        for i, v in enumerate(arr.reshape(-1)):
            of[i] = f(v)
        return [out]

    def hooks(self):
        def one(f, what):
            def hook(it, eqn, invals):
                if len(invals) != 1 or len(eqn.outvars) != 1:
                    return NotImplemented       # a transformed (jvp / transposed) instance of the wrapper: interpret its body
                it.stub(what)
                return self._map(f, invals[0], it)
            return hook
        return {
            "_gt_Phi": one(self.Phi, "norm.cdf -> Phi atom"),
            "_gt_phi": one(self.phi, "norm.pdf -> exp(-t^2/2)/sqrt(2 pi)"),
            "_gt_logPhi": one(self.logPhi, "norm.logcdf -> ln Phi atom"),
        }

    # ---- numeric evaluation / differentiation
    def fix_env(self, env):
        for name, k in self.slots:
            t = S(self.ctx, {self.ctx._k0(): k}).evalf(env)
            env[name] = 0.5 * (1.0 + math.erf(t / math.sqrt(2.0)))
        for name in self.free:
            env[name] = 0.5

    def total_diff(self, s, varname):
        """d s / d varname with the PHI_k treated as Phi(t_k(varname, ...))"""
        out = sdiff(s, varname)
        for name, k in self.slots:
            dk = k.diff(self.ctx.g[varname])
            if dk == 0:
                continue
            t = S(self.ctx, {self.ctx._k0(): k})
            out = out + sdiff(s, name) * self.phi(t) * S(self.ctx, {self.ctx._k0(): dk})
        return out
