#!/bin/sh
# usage: ./check.sh <property id> [quick|thorough]      (cwd = /verif)
# exit 0: property held on everything explored; 1: VIOLATION printed; 2: inconclusive harness / engine error
HERE="$(cd "$(dirname "$0")" && pwd)"
cd "$HERE" || exit 2
./setup.sh >/dev/null 2>&1 || { echo "setup failed"; exit 2; }
export PYTHONDONTWRITEBYTECODE=1 JAX_PLATFORMS=cpu PYTHONWARNINGS=ignore OMP_NUM_THREADS=1 OPENBLAS_NUM_THREADS=1
export GAUSSIAN_TOOLBOX_VERIF=1
exec "$HERE/.venv/bin/python" -W ignore -m gtverif.run --prop "$1" --tier "${2:-${VERIF_TIER:-quick}}"
