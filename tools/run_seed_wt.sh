#!/bin/bash
# usage: tools/run_seed_wt.sh <patch file> <PROP> <scratch worktree> [tier]
# Applies the patch in a scratch git worktree of /repo (never touches /repo) and runs the check against that tree.
P=$1; PROP=$2; WT=$3; TIER=${4:-quick}
cd "$WT" || exit 9
git checkout -q -- . && git apply "$P" || { echo "patch does not apply"; exit 9; }
trap 'git -C "$WT" checkout -q -- .' EXIT
cd /verif
GTVERIF_REPO="$WT" PYTHONDONTWRITEBYTECODE=1 JAX_PLATFORMS=cpu OMP_NUM_THREADS=1 ./.venv/bin/python -W ignore -m gtverif.run --prop "$PROP" --tier "$TIER" --no-evidence ${ONLY:+--only "$ONLY"} 2>&1 | grep -v Warning | cut -c1-400 | grep -E "^\[|^VIOLATION|^KNOWN|^INCONCLUSIVE" | head -8
echo "exit=${PIPESTATUS[0]}"
