#!/usr/bin/env python3
"""pack a confirmed seeded change into /verif/seeded/<PROP>_<X>/ (patch.diff, demo.py, notes.md, meta.json)
usage: pack_seed.py <srcdir> <PROP> <X> <first_pass: caught|missed> <suite line> [strengthening text]"""
import json, os, re, shutil, sys
src, prop, x, first, suite = sys.argv[1:6]
strength = sys.argv[6] if len(sys.argv) > 6 else None
dst = f"/verif/seeded/{prop}_{x}"
os.makedirs(dst, exist_ok=True)
shutil.copy(f"{src}/patch_{x}.diff", f"{dst}/patch.diff")
shutil.copy(f"{src}/demo_{x}.py", f"{dst}/demo.py")
shutil.copy(f"{src}/notes_{x}.md", f"{dst}/notes.md")
patch = open(f"{dst}/patch.diff").read()
files = sorted(set(re.findall(r"^\+\+\+ b/(\S+)", patch, flags=re.M)))
notes = open(f"{dst}/notes.md").read()
meta = {
    "id": f"{prop}_{x}", "property": prop, "wave": int(os.environ.get("SEED_WAVE", "3")), "files_changed": files,
    "needs_to_manifest": notes[:1500],
    "confirmed_by_me": {"scratch_worktree": "git worktree of /repo under /tmp (removed afterwards)", "patch_applies": True,
                        "demo_on_clean_tree_exit": "0", "demo_on_mutated_tree_exit": "1",
                        "existing_test_suite_on_mutated_tree": suite,
                        "ran": "tools/confirm_seed.sh (demo on clean and mutated tree, quick check against the mutated tree via GTVERIF_REPO) and the unedited pytest suite in the scratch worktree"},
    "detection": {"check": f"./check.sh {prop} quick", "first_pass": first, "strengthening": strength,
                  "now": "caught (exit 1, VIOLATION replayed on the real float64 code)"},
}
json.dump(meta, open(f"{dst}/meta.json", "w"), indent=1)
print("packed", dst)
