#!/usr/bin/env python3
"""Regenerates /verif/MANIFEST.json from the table below (single source of truth)."""
import json
import os
import subprocess

ROOT = os.path.dirname(os.path.dirname(os.path.abspath(__file__)))

TECH = "jaxpr symbolic execution of the real code over exact reals + z3 QF_NRA verification conditions (cvc5 cross-check in the thorough tier), counterexamples replayed in float64"

LEVEL_TEXT = ("bounded symbolic verification: for each enumerated configuration (shapes, batch sizes, class kinds, code paths) the "
              "real library call is traced to its jaxpr, interpreted over exact symbolic reals, and the property is discharged by z3 as "
              "polynomial verification conditions -- unsat means it holds for EVERY real value of the symbolic inputs of that configuration; "
              "not a proof: shapes are bounded and floating point is treated as real arithmetic")

NOTE_COMMON = ("trusted: JAX tracing (jaxpr = what jit compiles), our jaxpr interpreter (validated on every run against the real float64 "
               "execution at seeded points), sympy's rational-function normal form, z3; stubs: cho_solve/cho_factor -> adjugate inverse, "
               "slogdet -> ln|det|; float literals k/2 ln(2pi), pi^(k/2) read as symbolic constants; floating-point effects outside the claim")

# property -> (claimed?, design ref, extra note)
CLAIMED = {
    "C01": ("4/C01", "all factor kinds x {multiply,*,hadamard,product} x update_full x cached covariance; D<=2 (3 thorough), R1,R2<=3"),
    "C02": ("4/C02", "mass of measures vs the Gaussian mass axiom; every density-returning API normalised, decided from the returned Lambda/nu/ln_beta; D<=2, Dx+Dy<=3 (2,2 semi-symbolic in thorough)"),
    "C03": ("4/C03 + 11", "all 12 integration keys, shared / per-component / mixed / default coefficients, D=2 fully symbolic with K,L,M permutations of (1,2,3), R<=2 (D=3 thorough); D=4..6 with K,L,M up to 5 with the covariance bound to generic rationals (mean and coefficients symbolic); Stein-recursion oracle"),
    "C04": ("4/C04 + 11.3", "inductive step: one public operation from an arbitrary consistent pre-state (caches absent / supplied / queried); warm-vs-cold equality; constructor / prior variants of every conditional kind; HISTORIES: 18 (120 thorough) fixed random operation sequences of length 3-5 (3-8) executed with and without read-only queries, invariant after every step and final function against the tracked definition; D=2, R<=2, Dx+Dy<=3"),
    "C05": ("4/C05", "get_marginal for ordered index lists D<=3 (4 semi), linear sums Dsum<=2"),
    "C06": ("4/C06", "condition_on / condition_on_explicit for every proper ordered subset, D<=3 (4 semi)"),
    "C07": ("4/C07", "all conditional kinds, (Dx,Dy) in {(1,1),(2,1),(1,2)} fully symbolic, (2,2) semi; (R_cond,R_x) in {(1,1),(1,2),(2,1)}"),
    "C08": ("4/C08", "as C07"),
    "C09": ("4/C09", "Bayes identity as C07; round trip at Dx+Dy<=3 with the prior covariance concrete for Dx+Dy=3"),
    "C10": ("4/C10", "all conditional kinds, Dx != Dy included, R=1 with N<=2 (3 thorough) observations and R=N; well-formedness through product/slice/multiply/log_integral"),
    "C13": ("4/C13", "entropy/KL/conditional entropy/MI equalities against Stein-moment expectations; KL>=0 and MI>=0 solver-decided only for D=Dx=Dy=1"),
    "C11": ("4/C11 + 11.4", "regression N=2 fully symbolic, N=4 with all 24 orders (matrices concrete), N=3 thorough: sequential in every order, joint+condition_on, prior*prod set_y, evidence; prior built five ways; observation model built from Sigma=, Lambda= or both (12.2); Kalman T=2 fully symbolic and T=6/8 (12 thorough) with the model matrices bound to generic rationals vs the dense joint built by the spec"),
    "C12": ("4/C12", "op(obj).slice(idx') = op(obj.slice(idx)) for enumerated index arrays (repeats, negatives, permutations) over R in {2,3} (D=2) and R in {5,6} (D=1); all classes and operations listed in evidence (products on cold / cache-warm measures and densities, log-factor integrals, transformations with the batch on either side, approximate conditionals, truncated measures incl. limits infinite on different sides); index arrays are enumerated, values solved"),
    "C14": ("4/C14", "log-factor for all factor kinds; linear conditionals with arbitrary Gaussian q; LRBF/LSEM with tilted-Gaussian closed-form oracle, Dx=1, Dk<=2 (Dx=2 thorough)"),
    "C15": ("4/C15", "relational: specialised vs general class built from the same parameters, all operations the specialised class supports; D=2, R<=2, Dx+Dy<=3 (identity D<=2)"),
    "C16": ("4/C16", "(a) moments of LRBF/LSEM/exp/cosh-1 against tilted-Gaussian closed forms + structure of condition_on_x; (b) assembly for all six classes with stubbed symbolic moments; step/relu link moments for Dx=1 via Phi atoms"),
    "C17": ("4/C17", "coherence clause (mean, covariance, precision = inverse, log-determinant of condition_on_x for all four links, link value arbitrary); step-link EQUALITY of the bound for Dx=1; exactness at zero input weights and the first-order tightness condition (d gap/d eps = 0 at eps = 0, jvp of the real code) for exp and cosh-1; lb <= truth for exp, cosh-1 (Dx<=2) and the rectified-linear link (Dx=1) through a witness minorant (returned value = closed-form expectation of an explicit pointwise minorant, for arbitrary variational parameters; failed equalities are replayed against quadrature of the true expectation); declined: the inequality for several noise units / wide A / rectified-linear Dx>=2, tightness beyond first order"),
    "C18": ("4/C18 + 11.7", "round trips (tree flatten/unflatten, jit boundary, tree_map, to_dict/from_dict, scan carry incl. T=6 (12) filters with concrete matrices) for every class; vmap and grad as translation validation on a fixed set of pipelines (incl. truncated-measure integrals and the heteroscedastic bound at zero weights); exceptions that occur only under tracing are confirmed by a real jit run; numerical 'jit == eager' (XLA) and 'all programs' are outside"),
    "C20": ("4/C20 + 10.8", "normal cdf as a symbolic atom (axioms: range, monotone, symmetry, Phi(0)=1/2, limits); F_k decided by fundamental-theorem derivatives + additivity + two anchors, k<=4 (6 thorough), finite / one-sided / infinite limits, R<=2; evaluation on the three regions; normalised variants; far-tail floating-point accuracy outside"),
    "C19": ("4/C19 + 12.1", "jax.random.normal stubbed by an arbitrary array; R<=3, D<=3, n<=2; user-built densities, after update, and densities returned by slice / get_marginal / condition_on(.)(x) / get_density_of_linear_sum / GaussianMeasure.get_density"),
}

NOT_APPLICABLE = {
}

PENDING_REASON = "harness not built yet in this round (engine exists; see DESIGN.md build order)"


def main():
    props = [json.loads(l) for l in open(os.path.join(ROOT, "properties.jsonl"))]
    checks = []
    na = []
    for p in props:
        pid = p["id"]
        if pid in CLAIMED:
            ref, note = CLAIMED[pid]
            checks.append({
                "property_id": pid,
                "quick_cmd": f"./check.sh {pid} quick",
                "thorough_cmd": f"./check.sh {pid} thorough",
                "evidence_file": f"/verif/evidence/{pid}.json",
                "replay_cmd_template": "./.venv/bin/python -m gtverif.run --prop " + pid + " --replay {path}",
                "engine": "gtverif",
                "level_claimed": {"category": "other", "text": LEVEL_TEXT, "design_ref": "DESIGN.md section " + ref},
                "level_note": NOTE_COMMON + "; scope: " + note,
                "technique": TECH,
            })
        else:
            na.append({"property_id": pid, "reason": NOT_APPLICABLE.get(pid, PENDING_REASON)})
    try:
        hooks = subprocess.run(["git", "-C", "/repo", "log", "--format=%H %s", "--grep=^hook:"], capture_output=True, text=True).stdout.split("\n")
        hooks = [h.split()[0] for h in hooks if h.strip()]
    except Exception:
        hooks = []
    man = {
        "version": 1,
        "setup_cmd": "./setup.sh",
        "hooks": {
            "guard": "GAUSSIAN_TOOLBOX_VERIF",
            "enable": "no source hooks are needed: the checks trace the unmodified library from /repo's working tree (GAUSSIAN_TOOLBOX_VERIF=1 is exported by check.sh but nothing in /repo reads it)",
            "baseline_off_cmd": "cd /repo && /venv/bin/python -m pytest -ra -q -p no:cacheprovider --timeout=900 --continue-on-collection-errors",
            "source_commits": hooks,
            "add_only": True,
        },
        "engines": [{
            "name": "gtverif",
            "path": "/verif/gtverif",
            "serves_properties": sorted(CLAIMED),
            "kind_free_text": "jaxpr -> exact symbolic reals (exp/ln/sqrt polynomials over Q(x)) -> SMT-LIB2 QF_NRA -> z3 / cvc5; float64 replay of models",
        }],
        "checks": checks,
        "not_applicable": na,
        "notes": "exit codes of every check: 0 held / 1 VIOLATION line printed / 2 inconclusive harness (never reported as success). Known findings: /verif/known_findings.json.",
    }
    with open(os.path.join(ROOT, "MANIFEST.json"), "w") as fh:
        json.dump(man, fh, indent=1)
    print("checks:", [c["property_id"] for c in checks], "not_applicable:", len(na))


if __name__ == "__main__":
    main()
