#!/bin/bash
# usage: tools/run_seed.sh <patch file> <PROP> [tier]   -- applies the patch to /repo, runs the check, reverts.
# Never leaves /repo modified. Prints the check's summary and exit code.
P=$1; PROP=$2; TIER=${3:-quick}
cd /repo || exit 9
if ! git diff --quiet; then echo "/repo is dirty, refusing"; exit 9; fi
git apply "$P" || { echo "patch does not apply"; exit 9; }
trap 'git -C /repo checkout -- .' EXIT
cd /verif
PYTHONDONTWRITEBYTECODE=1 JAX_PLATFORMS=cpu OMP_NUM_THREADS=1 ./.venv/bin/python -W ignore -m gtverif.run --prop "$PROP" --tier "$TIER" --no-evidence 2>&1 | grep -v Warning | cut -c1-400 | grep -E "^\[|^VIOLATION|^KNOWN|^INCONCLUSIVE" | head -8
echo "exit=${PIPESTATUS[0]}"
