#!/bin/bash
# usage: tools/run_all_seeds.sh [streams=3] [jobs per stream=5]
# Runs every seeded change under /verif/seeded against its property's quick check (in scratch worktrees of /repo, never /repo
# itself) and writes /verif/seeded/RESULTS.txt: one line per seed with the check's exit code (1 = detected).
cd /verif || exit 2
S=${1:-3}; J=${2:-5}
ids=($(ls seeded | grep -E '^C[0-9]+_[a-z]$'))
rm -f /tmp/seedres_*.txt
for s in $(seq 0 $((S-1))); do
  (
    WT=/tmp/seedwt_$s
    git -C /repo worktree remove --force $WT >/dev/null 2>&1
    git -C /repo worktree add --detach $WT HEAD >/dev/null 2>&1
    for k in $(seq $s $S $((${#ids[@]}-1))); do
      id=${ids[$k]}; P=${id%%_*}
      only=$(python3 -c "import json;print(json.load(open('/verif/seeded/$id/meta.json')).get('regression_only',''))")
      out=$(ONLY="$only" VERIF_JOBS=$J tools/run_seed_wt.sh /verif/seeded/$id/patch.diff $P $WT 2>&1)
      ex=$(echo "$out" | grep -o 'exit=[0-9]*' | tail -1)
      echo "$id $ex $(echo "$out" | grep -E '^\[' | head -1 | cut -c1-120)" >> /tmp/seedres_$s.txt
    done
    git -C /repo worktree remove --force $WT >/dev/null 2>&1
  ) &
done
wait
cat /tmp/seedres_*.txt | sort > seeded/RESULTS.txt
echo "detected: $(grep -c 'exit=1' seeded/RESULTS.txt) / $(wc -l < seeded/RESULTS.txt)"
grep -v 'exit=1' seeded/RESULTS.txt
