#!/bin/bash
# usage: tools/run_all.sh [quick|thorough] [ids...]   -- runs the registered checks one after another, validates evidence
cd "$(dirname "$0")/.." || exit 2
TIER=${1:-quick}; shift
IDS=${@:-$(python3 -c "import json;print(' '.join(c['property_id'] for c in json.load(open('MANIFEST.json'))['checks']))")}
rc=0
for p in $IDS; do
  s=$(date +%s)
  out=$(./check.sh $p $TIER 2>&1 | grep -v Warning); code=$?
  code=${PIPESTATUS[0]}
  echo "$out" | grep -E "^\[|^VIOLATION|^INCONCLUSIVE|^KNOWN" | cut -c1-220
  echo "   -> $p exit=$(echo "$out" | tail -0; true) wall=$(( $(date +%s) - s ))s"
done
python3-vt - <<'PY'
import json, jsonschema, glob
sch=json.load(open('/root/.vp/EVIDENCE.schema.json'))
for f in sorted(glob.glob('/verif/evidence/*.json')):
    try:
        jsonschema.validate(json.load(open(f)), sch); print(f, 'valid')
    except Exception as e:
        print(f, 'INVALID', str(e)[:200])
PY
