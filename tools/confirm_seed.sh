#!/bin/bash
# usage: tools/confirm_seed.sh <dir with patch/demo> <PROP> <X: suffix of patch_X.diff/demo_X.py or ''> <scratch worktree> [suite]
# Confirms a seeded change in a scratch worktree of /repo: patch applies, demo exits 0 on the clean tree and !=0 on the
# mutated tree, (optionally) the unedited suite still passes, then runs the property's quick check against the mutated tree.
DIR=$1; PROP=$2; X=$3; WT=$4; SUITE=$5
if [ -n "$X" ]; then P=$DIR/patch_$X.diff; D=$DIR/demo_$X.py; else P=$DIR/patch.diff; D=$DIR/demo.py; fi
cd "$WT" || exit 9
git checkout -q -- . ; git clean -qfd
export PYTHONDONTWRITEBYTECODE=1 JAX_PLATFORMS=cpu
PYTHONPATH=$WT timeout 900 /venv/bin/python "$D" >/tmp/confirm_$$.log 2>&1; c0=$?
git apply "$P" || { echo "RESULT $PROP$X patch does not apply"; exit 9; }
PYTHONPATH=$WT timeout 900 /venv/bin/python "$D" >>/tmp/confirm_$$.log 2>&1; c1=$?
s="not-run"
if [ -n "$SUITE" ]; then
  s=$(PYTHONPATH=$WT timeout 1800 /venv/bin/python -m pytest -q -p no:cacheprovider --timeout=900 -x 2>&1 | tail -1)
fi
cd /verif
out=$(GTVERIF_REPO="$WT" OMP_NUM_THREADS=1 VERIF_JOBS=${VERIF_JOBS:-16} ./.venv/bin/python -W ignore -m gtverif.run --prop "$PROP" --tier quick --no-evidence 2>&1 | grep -v Warning | grep -E "^\[|^VIOLATION|^INCONCLUSIVE" | cut -c1-300 | head -6)
git -C "$WT" checkout -q -- .
rm -f /tmp/confirm_$$.log
echo "RESULT ${PROP}_$X demo_clean=$c0 demo_mut=$c1 suite='$s'"
echo "$out"
