#!/bin/sh
# Offline bootstrap of the verification venv: an overlay on /venv (the repository's own
# environment, so jax / numpy / gaussian_toolbox are the repo's) plus z3, sympy, cvc5 from the
# local wheelhouse.  Idempotent; every check calls it (cheap when the venv already exists).
set -e
HERE="$(cd "$(dirname "$0")" && pwd)"
V="$HERE/.venv"
if [ -x "$V/bin/python" ] && "$V/bin/python" -c "import z3, sympy, jax" >/dev/null 2>&1; then
  exit 0
fi
(
  # serialise concurrent bootstraps (checks may be started in parallel)
  flock 9
  if [ -x "$V/bin/python" ] && "$V/bin/python" -c "import z3, sympy, jax" >/dev/null 2>&1; then
    exit 0
  fi
  rm -rf "$V"
  /venv/bin/python -m venv "$V"
  echo "import site; site.addsitedir('/venv/lib/python3.12/site-packages')" \
    > "$V/lib/python3.12/site-packages/_base.pth"
  PIP_NO_INDEX=1 "$V/bin/pip" install -q --no-index --find-links /opt/veriftools/wheels z3-solver sympy cvc5 >/dev/null
  "$V/bin/python" -c "import z3, sympy, jax, cvc5; print('gtverif venv ok: z3', z3.get_version_string(), 'sympy', sympy.__version__)"
) 9>"$HERE/.venv.lock"
